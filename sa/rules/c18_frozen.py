"""C18 - Frozen networks cannot be structurally modified.

Z-COVER  every public method of MRO(K) that is not shadowed by K's freeze() reaches no write to
         the node/edge tables, their member sets, or the key sets of the attribute tables when the
         receiver is frozen (calls to shadowed names raise and end the path); the same for every
         public library function handed a frozen network.
Z-RAISE  exception.frozen raises XGIError on every path; every freeze() assigns that function.
Z-SUB    subhypergraph freezes the object it returns on every path.
Z-FLAG   freeze sets self.frozen = True; is_frozen returns it with False as AttributeError default;
         copy() builds from self.__class__() and copies no instance attribute.
"""
from __future__ import annotations

import ast

from ..effects import EATTR, EDGE, NATTR, NODE, Effects
from ..model import CORE_CLASSES, AnalysisError, FunctionInfo
from ..report import Result, mk_finding
from .common import network_params, returns_of, dominating_calls

PROP = "C18"


def is_struct(w):
    return w.region in (NODE, EDGE) or (w.region in (NATTR, EATTR) and w.kind in ("key", "rebind"))


def first_write(writes):
    ws = [w for w in writes if w.origin == ("p", 0) or True]
    return sorted(ws, key=lambda w: (len(w.chain), w.fn.file, w.line))[0]


def run(ctx):
    repo = ctx.repo
    res = Result(PROP)
    res.rules = ["Z-COVER", "Z-COVER-FN", "Z-RAISE", "Z-SUB", "Z-FLAG"]
    res.explanation = (
        "Interprocedural may-write analysis with the receiver marked frozen: calls to names that freeze() "
        "shadows raise and terminate the path; any remaining reachable write to the incidence tables, their "
        "member sets or the key sets of the attribute tables is reported with its call chain. Decided for every "
        "public method of the three classes (inherited ones re-analysed per concrete class) and every public "
        "library function with a network parameter; new methods and functions are picked up automatically."
    )
    eng = Effects(repo)
    n_methods = 0
    for cname in CORE_CLASSES:
        ci = repo.get_class(cname)
        frozen, fz = repo.frozen_names(ci)
        if not frozen:
            raise AnalysisError(f"{cname}.freeze assigns no frozen names (extractor does not recognise the code)")
        # Z-RAISE (b): what freeze assigns is exception.frozen
        for mname, fi in sorted(repo.all_methods(ci).items()):
            if mname.startswith("_"):
                continue
            if ctx.only and ctx.only not in (fi.qualname, f"{cname}.{mname}"):
                continue
            n_methods += 1
            if mname in frozen:
                res.inst("Z-COVER", f"{cname}.{mname} (shadowed by freeze)", True)
                continue
            summ = eng.summarize(fi, cname, (), ((0, cname, True),))
            bad = [w for w in summ.writes if w.origin == ("p", 0) and is_struct(w)]
            ok = not bad
            res.inst("Z-COVER", f"{cname}.{mname}", ok, sample={"rule": "Z-COVER", "class": cname, "method": mname, "defined_in": fi.qualname, "frozen_calls": sorted(x[0] for x in summ.frozen_calls)[:6], "structural_writes": len(bad)})
            if bad:
                w = first_write(bad)
                chain = [f"{cname}.{mname}"] + [f"{c[0]}:{c[1]}" for c in w.chain] + [w.short()]
                f = mk_finding(
                    PROP, "Z-COVER", fi, fi.node,
                    f"{cname}.{mname} is not shadowed by {fz.qualname} and reaches a structural write on a frozen receiver: {w.short()}",
                    role=cname, path=chain,
                )
                f.statement = f"{mname} -> {w.fn.qualname}: {w.text}"
                f.line = w.line if not w.chain else fi.node.lineno
                res.add(f)
    res.floor("public methods examined (3 classes)", n_methods, 80 if not ctx.only else 0)

    # library functions handed a frozen network
    n_fn = 0
    for fi in repo.public_functions():
        if ctx.only and ctx.only != fi.qualname:
            continue
        for j, pname in network_params(repo, fi):
            if pname == "create_using":
                continue
            for cname in CORE_CLASSES:
                summ = eng.summarize(fi, None, (), ((j, cname, True),))
                bad = [w for w in summ.writes if w.origin == ("p", j) and is_struct(w)]
                n_fn += 1
                res.inst("Z-COVER-FN", f"{fi.fq}({pname}: frozen {cname})", not bad)
                if bad:
                    w = first_write(bad)
                    chain = [fi.qualname] + [f"{c[0]}:{c[1]}" for c in w.chain] + [w.short()]
                    f = mk_finding(PROP, "Z-COVER-FN", fi, fi.node, f"{fi.qualname}({pname}) structurally modifies a frozen {cname}: {w.short()}", role=cname, path=chain)
                    f.statement = f"{fi.qualname}({pname}) -> {w.fn.qualname}: {w.text}"
                    res.add(f)
    res.floor("library function x class instances", n_fn, 250 if not ctx.only else 0)

    if ctx.only:
        return res

    # Z-RAISE: exception.frozen raises XGIError on every path
    exc_mod = repo.modules.get("xgi.exception")
    if exc_mod is None or "frozen" not in exc_mod.functions:
        raise AnalysisError("xgi.exception.frozen not found (anchor vanished)")
    fr = exc_mod.functions["frozen"]
    ok = _always_raises_xgierror(repo, fr)
    res.inst("Z-RAISE", "xgi.exception:frozen raises XGIError on every path", ok)
    if not ok:
        res.add(mk_finding(PROP, "Z-RAISE", fr, fr.node, "exception.frozen does not raise XGIError on every path", role="frozen"))
    for cname in CORE_CLASSES:
        ci = repo.get_class(cname)
        fz = repo.find_method(ci, "freeze")
        # Z-FLAG
        sets_flag = any(
            isinstance(st, ast.Assign)
            and any(isinstance(t, ast.Attribute) and t.attr == "frozen" and isinstance(t.value, ast.Name) and t.value.id == fz.params[0] for t in st.targets)
            and isinstance(st.value, ast.Constant) and st.value.value is True
            for st in ast.walk(fz.node)
        )
        res.inst("Z-FLAG", f"{fz.qualname} sets self.frozen = True", sets_flag)
        if not sets_flag:
            res.add(mk_finding(PROP, "Z-FLAG", fz, fz.node, f"{fz.qualname} does not set self.frozen = True", role=cname))
        isf = repo.find_method(ci, "is_frozen")
        if isf is None:
            raise AnalysisError(f"{cname}.is_frozen not found (anchor vanished)")
        ok = _is_frozen_shape(isf)
        res.inst("Z-FLAG", f"{isf.qualname} returns self.frozen, False on AttributeError", ok)
        if not ok:
            res.add(mk_finding(PROP, "Z-FLAG", isf, isf.node, f"{isf.qualname} does not return self.frozen with False as the AttributeError default", role=cname))
        cp = repo.find_method(ci, "copy")
        if cp is None:
            raise AnalysisError(f"{cname}.copy not found (anchor vanished)")
        ok, why = _copy_is_unfrozen(cp)
        res.inst("Z-FLAG", f"{cp.qualname} (as {cname}) builds from self.__class__() and copies no instance attribute", ok)
        if not ok:
            res.add(mk_finding(PROP, "Z-FLAG", cp, cp.node, f"{cp.qualname}: {why}", role=cname))

    # Z-SUB
    gv = repo.modules.get("xgi.core.globalviews")
    if gv is None or "subhypergraph" not in gv.functions:
        raise AnalysisError("xgi.core.globalviews.subhypergraph not found (anchor vanished)")
    sub = gv.functions["subhypergraph"]
    rets = returns_of(sub.node)
    if not rets:
        raise AnalysisError("subhypergraph has no return statement")
    for r in rets:
        ok = isinstance(r.value, ast.Name) and dominating_calls(sub.node, r, r.value.id, "freeze")
        res.inst("Z-SUB", f"subhypergraph return at line {r.lineno} is dominated by <ret>.freeze()", ok)
        if not ok:
            res.add(mk_finding(PROP, "Z-SUB", sub, r, "subhypergraph returns an object on which freeze() was not called on every path", role="return"))
    return res


def _always_raises_xgierror(repo, fn: FunctionInfo):
    for n in ast.walk(fn.node):
        if isinstance(n, (ast.Return, ast.Yield, ast.YieldFrom)):
            return False
    body = [s for s in fn.node.body if not (isinstance(s, ast.Expr) and isinstance(s.value, ast.Constant))]
    if len(body) != 1 or not isinstance(body[0], ast.Raise) or body[0].exc is None:
        return False
    exc = body[0].exc
    callee = exc.func if isinstance(exc, ast.Call) else exc
    if not isinstance(callee, ast.Name):
        return False
    target = repo.resolve_name(fn, fn.module, callee.id)
    return getattr(target, "name", None) == "XGIError"


def _is_frozen_shape(fn: FunctionInfo):
    body = [s for s in fn.node.body if not (isinstance(s, ast.Expr) and isinstance(s.value, ast.Constant))]
    selfn = fn.params[0]

    def is_self_frozen(e):
        return isinstance(e, ast.Attribute) and e.attr == "frozen" and isinstance(e.value, ast.Name) and e.value.id == selfn

    if len(body) == 1 and isinstance(body[0], ast.Try):
        t = body[0]
        if len(t.body) == 1 and isinstance(t.body[0], ast.Return) and is_self_frozen(t.body[0].value):
            for h in t.handlers:
                names = [h.type.id] if isinstance(h.type, ast.Name) else [e.id for e in getattr(h.type, "elts", []) if isinstance(e, ast.Name)]
                if "AttributeError" in names and len(h.body) == 1 and isinstance(h.body[0], ast.Return) and isinstance(h.body[0].value, ast.Constant) and h.body[0].value.value is False:
                    return True
        return False
    if len(body) == 1 and isinstance(body[0], ast.Return):
        v = body[0].value
        # getattr(self, "frozen", False)
        if isinstance(v, ast.Call) and isinstance(v.func, ast.Name) and v.func.id == "getattr" and len(v.args) == 3:
            a = v.args
            return isinstance(a[0], ast.Name) and a[0].id == selfn and isinstance(a[1], ast.Constant) and a[1].value == "frozen" and isinstance(a[2], ast.Constant) and a[2].value is False
    return False


def _copy_is_unfrozen(fn: FunctionInfo):
    selfn = fn.params[0]
    built = False
    for n in ast.walk(fn.node):
        if isinstance(n, ast.Call) and isinstance(n.func, ast.Attribute) and n.func.attr == "__class__" and isinstance(n.func.value, ast.Name) and n.func.value.id == selfn:
            built = True
        if isinstance(n, ast.Call) and isinstance(n.func, ast.Name) and n.func.id == "type" and n.args and isinstance(n.args[0], ast.Name) and n.args[0].id == selfn:
            built = True
        # copying the instance dict would carry the freeze shadows over
        if isinstance(n, ast.Attribute) and n.attr == "__dict__":
            return False, "copy() touches __dict__ (instance-level freeze shadows would be copied)"
        if isinstance(n, ast.Call) and isinstance(n.func, ast.Name) and n.func.id in ("deepcopy", "copy") and n.args and isinstance(n.args[0], ast.Name) and n.args[0].id == selfn:
            return False, "copy() copies the whole instance (instance-level freeze shadows would be copied)"
        if isinstance(n, ast.Assign):
            for t in n.targets:
                if isinstance(t, ast.Attribute) and t.attr in ("frozen",):
                    return False, "copy() assigns the frozen flag"
    if not built:
        return False, "copy() does not construct the result with self.__class__()"
    return True, ""
