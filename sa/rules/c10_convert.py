"""C10 - Conversions between representations preserve the incidence relation (NARROW: structural clauses).

T-KEYS     the string keys the dict-format writers store (top level and per record) equal the keys the readers read;
           the network-type and direction literals written are exactly those dispatched on, and the tail/head <-> in/out
           maps compose to the identity (writer edge list -> writer lambda -> reader lambda -> add_node_to_edge).
T-DEF      a key the reader subscripts unconditionally is *assigned* by the writer unconditionally or in every branch of an
           exhaustive dispatch - never only created on demand by appending to a defaultdict entry.
T-ATTRS    in to_hif_dict every node / edge that has attributes is written with them: on the paths where the attribute
           dict is non-empty the appended record carries "attrs".
T-CAST     every ID the readers take from the data is cast with the matching nodetype / edgetype.
T-SIBLING  every network-to-network branch of to_hypergraph / to_dihypergraph / to_simplicial_complex transfers nodes,
           edges (with IDs) and the network attributes.
T-NPID     no label reaches a network-building call after a detour through a NumPy array built from the labels
           (np.array([0, "b"]) is an array of strings: mixed int/str labels come back as strings).
T-FLOW     every parameter of every converter can influence what the converter returns or builds (a label list that is
           only length-checked, a type that is never applied, a flag that selects nothing is a dropped part of the input).
T-ROLE     from_bipartite_graph decides which endpoint of a graph edge is the hyperedge by membership in the recorded
           bipartite sets, in both the directed and the undirected branch.
Round-trip equality of values is NOT decided.
"""
from __future__ import annotations

import ast

from ..cfg import CFG, ENTRY, EXIT, own_nodes, own_statements
from ..model import CORE_CLASSES, AnalysisError
from ..report import Result, mk_finding
from .common import unparse

PROP = "C10"
from ..cfg import EXIT as EXIT_NODE  # noqa: E402


def run(ctx):
    repo = ctx.repo
    res = Result(PROP)
    res.rules = ["T-KEYS", "T-DEF", "T-ATTRS", "T-CAST", "T-SIBLING", "T-ROLE", "T-NPID", "T-FLOW", "T-DOM", "T-IDKEEP"]
    res.explanation = (
        "Narrow claim: finite tables (keys, enumerations, literal maps) are extracted from the writer and the reader of "
        "each dict format and compared; definite assignment of unconditionally-read keys; sibling comparison of the "
        "class-to-class branches; role assignment by test in the bipartite-graph converter. Equality of the converted "
        "values is not decided."
    )
    check_hif(repo, res)
    check_hdict(repo, res)
    check_siblings(repo, res)
    check_role(repo, res)
    check_npid(repo, res)
    check_flow(repo, res)
    # T-DOM: converters that regroup incidences into several per-side / per-kind maps must visit the union of their keys
    from .common import one_sided_key_domain, pattern_lint

    conv = [f for mn, mi in sorted(repo.modules.items()) if mn.startswith("xgi.convert.") for _, f in sorted(mi.functions.items())]
    if len(conv) < 20:
        raise AnalysisError(f"only {len(conv)} converter functions found (anchor vanished)")
    pattern_lint(res, PROP, "T-DOM", conv, one_sided_key_domain,
                 "def f(rows):\n    tail = {}\n    head = {}\n    for n, e, d in rows:\n        if d == 'in':\n            tail.setdefault(e, []).append(n)\n        else:\n            head.setdefault(e, []).append(n)\n    return {e: (tail[e], head[e]) for e in tail}\n",
                 lambda nd: f"`{unparse(nd, 40)}` is read inside an iteration over the keys of another map that was filled under different conditions; an ID that only ever reached `{unparse(nd.value, 20)}` (for instance an edge with an empty tail, or a node that occurs only there) is never visited and silently disappears from the converted network",
                 "joint reads of sibling maps over a one-sided key domain")
    # T-IDKEEP: the converters rebuild networks through add_edge / add_node_to_edge / the bulk adders with the labels of the
    # source; those builders must store an element under the label they are given - including the falsy labels 0 and ''
    from ..model import CORE_CLASSES
    from .common import optional_id_truthiness

    builders = [m for cn in CORE_CLASSES for m in repo.get_class(cn).methods.values()] + conv
    pattern_lint(res, PROP, "T-IDKEEP", builders, optional_id_truthiness,
                 "def add_edge(self, members, idx=None):\n    uid = next(self._edge_uid) if not idx else idx\n    self._edge[uid] = set(members)\n",
                 lambda nd: f"`{unparse(nd, 50)}` treats a falsy label (0, '') as 'no label given': a converter that re-creates the element labelled 0 through this builder gets it back under an automatic label, and the attributes recorded for label 0 no longer find it",
                 "optional ID parameters of the network builders tested for truthiness")
    return res


# ------------------------------------------------------------------------------------------ helpers
def fn_of(repo, modname, name):
    mi = repo.modules.get(modname)
    if mi is None or name not in mi.functions:
        raise AnalysisError(f"{modname}.{name} not found (anchor vanished)")
    return mi.functions[name]


def subscript_keys(fn, base):
    """String literals K used as `base["K"]` (any context) in fn, with context and enclosing test info."""
    out = []
    for n in ast.walk(fn.node):
        if isinstance(n, ast.Subscript) and isinstance(n.value, ast.Name) and n.value.id == base and isinstance(n.slice, ast.Constant) and isinstance(n.slice.value, str):
            out.append((n.slice.value, n))
    return out


def written_keys(fn, base):
    """Keys of the record `base` written by fn: base["K"] = ..., base = {"K": ...}, and a dict literal returned directly."""
    out = set()
    for n in ast.walk(fn.node):
        if isinstance(n, ast.Subscript) and isinstance(n.value, ast.Name) and n.value.id == base and isinstance(n.slice, ast.Constant) and isinstance(n.slice.value, str):
            out.add(n.slice.value)
        if isinstance(n, ast.Assign) and any(isinstance(t, ast.Name) and t.id == base for t in n.targets) and isinstance(n.value, ast.Dict):
            out |= {k.value for k in n.value.keys if isinstance(k, ast.Constant) and isinstance(k.value, str)}
        if isinstance(n, ast.Return) and isinstance(n.value, ast.Dict):
            out |= {k.value for k in n.value.keys if isinstance(k, ast.Constant) and isinstance(k.value, str)}
    return out


def membership_keys(fn, base):
    out = set()
    for n in ast.walk(fn.node):
        if isinstance(n, ast.Compare) and len(n.ops) == 1 and isinstance(n.ops[0], (ast.In, ast.NotIn)) and isinstance(n.left, ast.Constant) and isinstance(n.left.value, str) and isinstance(n.comparators[0], ast.Name) and n.comparators[0].id == base:
            out.add(n.left.value)
    return out


def dict_literal_keys(node):
    out = set()
    for n in ast.walk(node):
        if isinstance(n, ast.Dict):
            for k in n.keys:
                if isinstance(k, ast.Constant) and isinstance(k.value, str):
                    out.add(k.value)
    return out


def lambda_map(fn, name):
    """`name = lambda d: A if d == X else B` -> {X: A, '*': B}"""
    for st in own_statements(fn.node):
        if isinstance(st, ast.Assign) and isinstance(st.targets[0], ast.Name) and st.targets[0].id == name and isinstance(st.value, ast.Lambda):
            b = st.value.body
            if isinstance(b, ast.IfExp) and isinstance(b.test, ast.Compare) and isinstance(b.test.ops[0], ast.Eq) and isinstance(b.test.comparators[0], ast.Constant) and isinstance(b.body, ast.Constant) and isinstance(b.orelse, ast.Constant):
                return {b.test.comparators[0].value: b.body.value, "*": b.orelse.value}
    return None


# ------------------------------------------------------------------------------------------ HIF
def check_record_attrs_reach(res, r):
    """T-ATTRS (reader side): inside every loop over records, the local bound to the record's "attrs" reaches the
    network on every path through the loop body (passed to add_node / add_edge with **, or to set_*_attributes).
    A branch that creates the element without its attributes silently drops them for exactly the elements that take
    that branch (e.g. empty edges, isolated nodes)."""
    from ..cfg import CFG

    cfg = CFG(r.node)
    n = 0

    def reads_attrs_expr(v):
        return any((isinstance(x, ast.Subscript) and isinstance(x.slice, ast.Constant) and x.slice.value == "attrs") or (isinstance(x, ast.Call) and getattr(x.func, "attr", None) == "get" and x.args and isinstance(x.args[0], ast.Constant) and x.args[0].value == "attrs") for x in ast.walk(v))

    # helpers (nested in the reader or at module level) that read a record's "attrs" and return them
    helpers = {}
    for f in list(ast.walk(r.node)) + list(r.module.tree.body):
        if isinstance(f, (ast.FunctionDef, ast.AsyncFunctionDef)) and f is not r.node and reads_attrs_expr(f) and any(isinstance(x, ast.Return) and x.value is not None for x in ast.walk(f)):
            helpers[f.name] = f
    for st in ast.walk(r.node):
        if isinstance(st, ast.Assign) and len(st.targets) == 1 and isinstance(st.targets[0], ast.Name) and isinstance(st.value, ast.Lambda) and reads_attrs_expr(st.value.body):
            helpers[st.targets[0].id] = st.value
    # helpers of helpers (`_parse_attr_record` calling `_record_attrs`)
    changed = True
    while changed:
        changed = False
        for f in list(ast.walk(r.node)) + list(r.module.tree.body):
            if isinstance(f, (ast.FunctionDef, ast.AsyncFunctionDef)) and f is not r.node and f.name not in helpers and any(isinstance(x, ast.Return) and x.value is not None for x in ast.walk(f)):
                if any(isinstance(c, ast.Call) and isinstance(c.func, ast.Name) and c.func.id in helpers for c in ast.walk(f)):
                    helpers[f.name] = f
                    changed = True
    for lp in ast.walk(r.node):
        if not isinstance(lp, ast.For):
            continue
        if any(lp in [x for x in ast.walk(h)] for h in helpers.values()):
            continue
        inside = {id(x) for b in lp.body for x in ast.walk(b)}
        attr_names = set()
        binds = []
        for st in ast.walk(lp):
            if isinstance(st, ast.Assign) and len(st.targets) == 1 and id(st) in inside:
                v = st.value
                t = st.targets[0]
                via_helper = isinstance(v, ast.Call) and isinstance(v.func, ast.Name) and v.func.id in helpers
                if isinstance(t, ast.Name) and (reads_attrs_expr(v) or via_helper):
                    attr_names.add(t.id)
                    binds.append((st, t.id))
                elif isinstance(t, ast.Tuple) and via_helper:
                    # `n, attr = _parse_attr_record(record, ...)`: every component must reach the network
                    for e in t.elts:
                        if isinstance(e, ast.Name):
                            attr_names.add(e.id)
                            binds.append((st, e.id))
        for name in sorted(attr_names):
            mine = [b for b, nm in binds if nm == name]

            def consumes(nd, name=name):
                if not isinstance(nd, ast.AST) or any(nd is b for b in mine):
                    return False
                for c in own_nodes(nd):
                    if isinstance(c, ast.Call) and any(isinstance(x, ast.Name) and x.id == name for a in list(c.args) + [k.value for k in c.keywords] for x in ast.walk(a)):
                        nm = getattr(c.func, "attr", getattr(c.func, "id", ""))
                        if nm.startswith(("add_", "set_")) or nm in ("update",):
                            return True
                return False

            for b in mine:
                n += 1
                reach = cfg.reachable(b, avoid=consumes)
                leaks = lp in reach or EXIT_NODE in reach
                res.inst("T-ATTRS", f"from_hif_dict:{b.lineno} record attributes `{name}` reach the network on every path of the loop body", not leaks)
                if leaks:
                    # name the creating call on the leaking path
                    culprit = next((x for x in sorted((y for y in reach if isinstance(y, ast.AST) and id(y) in inside), key=lambda y: getattr(y, "lineno", 0)) if any(isinstance(c, ast.Call) and getattr(c.func, "attr", "").startswith("add_") for c in own_nodes(x))), b)
                    res.add(mk_finding(PROP, "T-ATTRS", r, culprit, f"from_hif_dict: on a path through the loop over records, `{unparse(culprit, 50)}` creates the element but the record's attributes (`{name}`) are never handed to the network; the attributes of every element that takes this path (an edge without incidences, an isolated node) are lost on reading", role=f"reader:{name}"))
    if n < 2:
        raise AnalysisError("from_hif_dict: fewer than two record loops that read `attrs` (extractor does not recognise the code)")


def check_hif(repo, res):
    w = fn_of(repo, "xgi.convert.hif_dict", "to_hif_dict")
    r = fn_of(repo, "xgi.convert.hif_dict", "from_hif_dict")
    check_record_attrs_reach(res, r)
    wkeys = {k for k, _ in subscript_keys(w, "data")}
    rsub = subscript_keys(r, "data")
    rkeys = {k for k, _ in rsub} | membership_keys(r, "data")
    ok = wkeys == rkeys
    res.inst("T-KEYS", f"HIF top-level keys written {sorted(wkeys)} = read {sorted(rkeys)}", ok, sample={"rule": "T-KEYS", "format": "HIF", "written": sorted(wkeys), "read": sorted(rkeys)})
    if not ok:
        res.add(mk_finding(PROP, "T-KEYS", w, w.node, f"HIF: top-level keys written by to_hif_dict {sorted(wkeys)} differ from those read by from_hif_dict {sorted(rkeys)}: {sorted(wkeys ^ rkeys)}", role="top"))
    # record keys
    from .common import with_module_helpers

    wrec = set()
    for f in with_module_helpers(repo, w):
        wrec |= dict_literal_keys(f.node)
    rrec = set()
    for f in with_module_helpers(repo, r):
        for pname in set(f.all_params) | {"record"}:
            if pname == "record" or f is not r:
                rrec |= {k for k, _ in subscript_keys(f, pname)} | membership_keys(f, pname)
    ok = wrec == rrec
    res.inst("T-KEYS", f"HIF record keys written {sorted(wrec)} = read {sorted(rrec)}", ok)
    if not ok:
        res.add(mk_finding(PROP, "T-KEYS", w, w.node, f"HIF: record keys written {sorted(wrec)} differ from those read {sorted(rrec)}: {sorted(wrec ^ rrec)}", role="record"))
    # network-type enumeration
    wtypes = set()
    for st in own_statements(w.node):
        if isinstance(st, ast.Assign) and any(isinstance(t, ast.Subscript) and isinstance(t.slice, ast.Constant) and t.slice.value == "network-type" for t in st.targets) and isinstance(st.value, ast.Constant):
            wtypes.add(st.value.value)
    rtypes = set()
    for n in ast.walk(r.node):
        if isinstance(n, ast.Compare) and isinstance(n.left, ast.Name) and n.left.id == "network_type":
            c = n.comparators[0]
            if isinstance(c, ast.Constant):
                rtypes.add(c.value)
            elif isinstance(c, (ast.Set, ast.Tuple, ast.List)):
                rtypes |= {e.value for e in c.elts if isinstance(e, ast.Constant)}
    ok = bool(wtypes) and wtypes == rtypes
    res.inst("T-KEYS", f"HIF network types written {sorted(wtypes)} = dispatched {sorted(rtypes)}", ok)
    if not ok:
        res.add(mk_finding(PROP, "T-KEYS", r, r.node, f"HIF: network-type literals written {sorted(wtypes)} differ from those from_hif_dict dispatches on {sorted(rtypes)}; a network of the missing class cannot be read back as that class", role="network-type"))
    # class dispatch of the writer covers the three classes
    wclasses = {x.id for st in own_statements(w.node) if isinstance(st, ast.If) for c in ast.walk(st.test) if isinstance(c, ast.Call) and getattr(c.func, "id", "") == "isinstance" for x in ast.walk(c.args[1]) if isinstance(x, ast.Name)}
    ok = set(CORE_CLASSES) <= wclasses
    res.inst("T-KEYS", "to_hif_dict distinguishes the three network classes", ok)
    if not ok:
        res.add(mk_finding(PROP, "T-KEYS", w, w.node, f"to_hif_dict does not distinguish all three network classes (tests {sorted(wclasses)})", role="classes"))
    # direction composition
    wm, rm = lambda_map(w, "_convert_d"), lambda_map(r, "_convert_d")
    be = fn_of(repo, "xgi.convert.bipartite_edges", "to_bipartite_edgelist")
    emitted = {}
    for loop in ast.walk(be.node):
        if isinstance(loop, ast.For) and isinstance(loop.iter, ast.Subscript) and isinstance(loop.iter.slice, ast.Constant):
            for c in ast.walk(loop):
                if isinstance(c, ast.Call) and getattr(c.func, "attr", "") == "append" and c.args and isinstance(c.args[0], ast.Tuple) and len(c.args[0].elts) == 3 and isinstance(c.args[0].elts[2], ast.Constant):
                    emitted[loop.iter.slice.value] = c.args[0].elts[2].value
    if not emitted:
        # comprehension form: [(n, e, d) for e, edge in ... for d in ("in", "out") for n in edge[d]]
        for comp in ast.walk(be.node):
            if isinstance(comp, (ast.ListComp, ast.GeneratorExp)) and isinstance(comp.elt, ast.Tuple) and len(comp.elt.elts) == 3 and isinstance(comp.elt.elts[2], ast.Name):
                dvar = comp.elt.elts[2].id
                lits, used = None, False
                for g in comp.generators:
                    if isinstance(g.target, ast.Name) and g.target.id == dvar and isinstance(g.iter, (ast.Tuple, ast.List)) and all(isinstance(x, ast.Constant) for x in g.iter.elts):
                        lits = [x.value for x in g.iter.elts]
                    if isinstance(g.iter, ast.Subscript) and isinstance(g.iter.slice, ast.Name) and g.iter.slice.id == dvar:
                        used = True
                if lits and used:
                    emitted = {l: l for l in lits}
    if not emitted:
        # one generator per side: ((n, e, "in") for n in edge["in"])
        for comp in ast.walk(be.node):
            if isinstance(comp, (ast.ListComp, ast.GeneratorExp)) and isinstance(comp.elt, ast.Tuple) and len(comp.elt.elts) == 3 and isinstance(comp.elt.elts[2], ast.Constant) and len(comp.generators) == 1:
                it = comp.generators[0].iter
                if isinstance(it, ast.Subscript) and isinstance(it.slice, ast.Constant):
                    emitted[it.slice.value] = comp.elt.elts[2].value
    if wm is None or rm is None or not emitted:
        raise AnalysisError("HIF direction maps (_convert_d lambdas / to_bipartite_edgelist literals) not found (extractor does not recognise the code)")
    ok = True
    detail = []
    for side in ("in", "out"):
        d0 = emitted.get(side)
        d1 = wm.get(d0, wm["*"])
        d2 = rm.get(d1, rm["*"])
        detail.append(f"{side}->{d0}->{d1}->{d2}")
        if d2 != side or d0 != side:
            ok = False
    exp = {"in": "tail", "out": "head"}
    if any(wm.get(emitted.get(s), wm["*"]) != exp[s] for s in ("in", "out")):
        ok = False
    res.inst("T-KEYS", f"direction literals compose to the identity with in<->tail, out<->head ({', '.join(detail)})", ok)
    if not ok:
        res.add(mk_finding(PROP, "T-KEYS", w, w.node, f"HIF: the direction maps do not compose to the identity with tail = 'in' side and head = 'out' side ({', '.join(detail)}); tails and heads are exchanged or lost in a round trip", role="direction"))
    # reader hands the converted direction to add_node_to_edge
    ok = any(isinstance(c, ast.Call) and getattr(c.func, "attr", "") == "add_node_to_edge" and len(c.args) == 3 for c in ast.walk(r.node))
    res.inst("T-KEYS", "from_hif_dict passes the direction to add_node_to_edge", ok)
    if not ok:
        res.add(mk_finding(PROP, "T-KEYS", r, r.node, "from_hif_dict does not pass the direction of a directed incidence to add_node_to_edge", role="direction-arg"))

    # ---- T-DEF
    guarded = membership_keys(r, "data")
    uncond = set()
    for k, node in rsub:
        if k in guarded:
            continue
        uncond.add(k)
    cfg = CFG(w.node)
    rets = [s for s in own_statements(w.node) if isinstance(s, ast.Return)]
    for k in sorted(uncond):
        assigns = [s for s in own_statements(w.node) if isinstance(s, ast.Assign) and any(isinstance(t, ast.Subscript) and isinstance(t.value, ast.Name) and t.value.id == "data" and isinstance(t.slice, ast.Constant) and t.slice.value == k for t in s.targets)]
        ok = bool(assigns) and definitely_assigned(w, cfg, assigns, rets, wtypes)
        res.inst("T-DEF", f"HIF key {k!r} (read unconditionally) is assigned on every path of to_hif_dict", ok)
        if not ok:
            res.add(mk_finding(PROP, "T-DEF", w, assigns[0] if assigns else w.node, f"HIF: from_hif_dict reads data[{k!r}] unconditionally but to_hif_dict does not assign it on every path (it only comes into being when something is appended); a network without such records cannot be read back", role=k))

    # ---- T-ATTRS
    for table, view in (("nodes", "nodes"), ("edges", "edges")):
        ok, why = attrs_written(w, table, view)
        res.inst("T-ATTRS", f"to_hif_dict writes the attributes of every {table[:-1]} that has any", ok)
        if not ok:
            res.add(mk_finding(PROP, "T-ATTRS", w, w.node, f"to_hif_dict: {why}; attributes of some {table} are lost in a HIF round trip", role=table))

    # ---- T-CAST: every ID handed to a network-building call is `<type>(record[<role>])` (raw only when no type is given)
    from ..provenance import Resolver

    rsv = Resolver(r.node, {f.name: f.node for f in r.module.functions.values()})
    sinks = []
    for c in ast.walk(r.node):
        if not (isinstance(c, ast.Call) and isinstance(c.func, ast.Attribute)):
            continue
        a = c.func.attr
        if a == "add_node_to_edge" and len(c.args) >= 2:
            sinks += [(c, c.args[0], "edge"), (c, c.args[1], "node")]
        elif a == "add_node" and c.args:
            sinks.append((c, c.args[0], "node"))
        elif a == "add_edge" and len(c.args) >= 2:
            sinks.append((c, c.args[1], "edge"))
        elif a in ("set_node_attributes", "set_edge_attributes") and c.args and isinstance(c.args[0], ast.Dict):
            for k in c.args[0].keys:
                if k is not None:
                    sinks.append((c, k, "node" if a == "set_node_attributes" else "edge"))
    n_sinks = {"node": 0, "edge": 0}
    for c, expr, role in sinks:
        typ = role + "type"
        n_sinks[role] += 1
        for alt in rsv.resolve(r.node, expr):
            e = alt.expr
            if isinstance(e, ast.Call) and isinstance(e.func, ast.Name) and len(e.args) == 1 and isinstance(e.args[0], ast.Subscript) and isinstance(e.args[0].slice, ast.Constant):
                ok = e.func.id == typ and e.args[0].slice.value == role
                why = f"is `{alt.text()}`"
            elif isinstance(e, ast.Subscript) and isinstance(e.slice, ast.Constant):
                falsy = any((isinstance(t, ast.Name) and t.id == typ and not b) or (" ".join(ast.unparse(t).split()) == f"{typ} is None" and b) or (" ".join(ast.unparse(t).split()) == f"{typ} is not None" and not b) for t, b in alt.guards)
                ok = e.slice.value == role and falsy
                why = f"is the raw `{alt.text()}`" + ("" if falsy else f" on a path where `{typ}` may be given")
            else:
                raise AnalysisError(f"from_hif_dict:{c.lineno}: cannot resolve where the {role} ID `{alt.text()}` comes from (extractor does not recognise the code)")
            res.inst("T-CAST", f"from_hif_dict:{c.lineno} {c.func.attr}: {role} ID {why}", ok)
            if not ok:
                res.add(mk_finding(PROP, "T-CAST", r, c, f"from_hif_dict: the {role} ID handed to {c.func.attr}() {why}; it must be `{typ}(record[{role!r}])` - otherwise the same ID is known under two different labels (incidences vs. attribute records) or under the wrong type", role=f"{role}:{c.func.attr}"))
    for role, cnt in n_sinks.items():
        if cnt < 2:
            raise AnalysisError(f"from_hif_dict: expected the {role} ID to be used for the incidences and for the {role} records")
    conv = None
    for st in own_statements(r.node):
        if isinstance(st, ast.FunctionDef) and st.name == "_convert_id":
            conv = st
    ok = conv is not None and any(isinstance(c, ast.Call) and isinstance(c.func, ast.Name) and c.func.id == conv.args.args[1].arg and c.args and isinstance(c.args[0], ast.Name) and c.args[0].id == conv.args.args[0].arg for c in ast.walk(conv))
    res.inst("T-CAST", "_convert_id applies the given type to the ID", ok)
    if not ok:
        res.add(mk_finding(PROP, "T-CAST", r, conv or r.node, "from_hif_dict._convert_id does not apply the requested type to the ID", role="_convert_id"))


def definitely_assigned(w, cfg, assigns, rets, wtypes):
    """Every path to a return passes one of `assigns`, treating an if/elif chain over data['network-type'] that
    covers every literal the function itself writes as exhaustive."""
    aset = set(id(a) for a in assigns)

    def is_assign(n):
        return id(n) in aset

    def edge_ok(a, b, lab):
        # the fall-through (all tests false) of an exhaustive network-type dispatch is infeasible
        if isinstance(a, ast.If) and lab == "F" and tests_type(a.test):
            covered = chain_literals(a)
            # this is the last test of the chain iff its orelse is empty
            if not a.orelse and wtypes and wtypes <= covered[0]:
                return False
        return True

    def tests_type(t):
        return any(isinstance(x, ast.Constant) and x.value == "network-type" for x in ast.walk(t))

    def chain_literals(last):
        # collect literals tested in the if/elif chain that ends at `last`
        lits = set()
        for st in own_statements(w.node):
            if isinstance(st, ast.If) and tests_type(st.test):
                cur = st
                chain = []
                while True:
                    chain.append(cur)
                    if len(cur.orelse) == 1 and isinstance(cur.orelse[0], ast.If) and tests_type(cur.orelse[0].test):
                        cur = cur.orelse[0]
                    else:
                        break
                if any(c is last for c in chain):
                    for c in chain:
                        for x in ast.walk(c.test):
                            if isinstance(x, ast.Constant) and isinstance(x.value, str) and x.value != "network-type":
                                lits.add(x.value)
        return (lits,)

    reach = cfg.reachable(ENTRY, avoid=is_assign, edge_ok=edge_ok)
    return not any(r in reach for r in rets) and EXIT not in reach


def attrs_written(w, table, view):
    """On the paths where H.<view>[x] is truthy, the record that ends up in data[table] carries 'attrs'. Records are
    appended to data[table] directly, or built by a nested helper that receives the view and whose result is handed to
    data[table] (extend / assignment)."""
    nested = {s.name: s for s in own_statements(w.node) if isinstance(s, (ast.FunctionDef, ast.AsyncFunctionDef))}
    sites = []  # (scope node, stmt, append call, names that denote the view inside the scope)
    for st in own_statements(w.node):
        for c in own_nodes(st):
            if isinstance(c, ast.Call) and getattr(c.func, "attr", "") == "append" and isinstance(c.func.value, ast.Subscript) and isinstance(c.func.value.slice, ast.Constant) and c.func.value.slice.value == table:
                sites.append((w.node, st, c, set()))
    # records produced elsewhere and handed over: data[table].extend(V) / data[table] = V / data[table] += V
    handed = []
    for st in own_statements(w.node):
        for c in own_nodes(st):
            if isinstance(c, ast.Call) and getattr(c.func, "attr", "") == "extend" and isinstance(c.func.value, ast.Subscript) and isinstance(c.func.value.slice, ast.Constant) and c.func.value.slice.value == table and c.args:
                handed.append(c.args[0])
        if isinstance(st, (ast.Assign, ast.AugAssign)):
            tg = st.targets if isinstance(st, ast.Assign) else [st.target]
            if any(isinstance(t, ast.Subscript) and isinstance(t.value, ast.Name) and t.value.id == "data" and isinstance(t.slice, ast.Constant) and t.slice.value == table for t in tg):
                handed.append(st.value)
    for v in handed:
        exprs = [v]
        if isinstance(v, ast.Name):
            exprs = [d.value for d in own_statements(w.node) if isinstance(d, ast.Assign) and any(isinstance(t, ast.Name) and t.id == v.id for t in d.targets)]
        for e in exprs:
            if isinstance(e, ast.Call) and isinstance(e.func, ast.Name) and e.func.id in nested:
                h = nested[e.func.id]
                params = [a.arg for a in h.args.args]
                vnames = {p for p, a in zip(params, e.args) if isinstance(a, ast.Attribute) and a.attr == view}
                if not vnames:
                    continue
                for st2 in own_statements(h):
                    for c2 in own_nodes(st2):
                        if isinstance(c2, ast.Call) and getattr(c2.func, "attr", "") == "append" and isinstance(c2.func.value, ast.Name) and c2.args:
                            sites.append((h, st2, c2, vnames))
    if not sites:
        return False, f"no record is appended to data[{table!r}]"

    for scope, st, c, vnames in sites:
        par = {}
        for p in ast.walk(scope):
            for ch in ast.iter_child_nodes(p):
                par[ch] = p

        def is_attr_test(t, scope=scope, vnames=vnames):
            """t is `H.<view>[x]` (truthiness of the attribute dict)"""
            if isinstance(t, ast.UnaryOp) and isinstance(t.op, ast.Not):
                r = is_attr_test(t.operand)
                return None if r is None else (not r)
            if isinstance(t, ast.Subscript) and ((isinstance(t.value, ast.Attribute) and t.value.attr == view) or (isinstance(t.value, ast.Name) and t.value.id in vnames)):
                return True
            if isinstance(t, ast.Name):
                defs = [s2.value for s2 in own_statements(scope) if isinstance(s2, ast.Assign) and any(isinstance(x, ast.Name) and x.id == t.id for x in s2.targets)]
                if defs and all(is_attr_test(d) is True for d in defs):
                    return True
            return None

        def carries_attrs(expr, scope=scope):
            if "attrs" in dict_literal_keys(expr):
                return True
            for n in ast.walk(expr):
                if isinstance(n, ast.Name):
                    defs = [s2 for s2 in own_statements(scope) if isinstance(s2, ast.Assign) and any(isinstance(t, ast.Name) and t.id == n.id for t in s2.targets)]
                    for d in defs:
                        v = d.value
                        if isinstance(v, ast.IfExp) and is_attr_test(v.test) is True and "attrs" in dict_literal_keys(v.body):
                            return True
                        if isinstance(v, ast.IfExp) and is_attr_test(v.test) is False and "attrs" in dict_literal_keys(v.orelse):
                            return True
                        if isinstance(v, ast.Dict) and "attrs" in dict_literal_keys(v):
                            return True
            return False

        if carries_attrs(c.args[0]):
            continue
        # an append without attrs is fine only on paths where the attribute dict is known to be empty
        p = st
        justified = False
        while p in par:
            child, p = p, par[p]
            if isinstance(p, ast.If):
                t = is_attr_test(p.test)
                in_body = any(child is s2 or any(child is x for x in ast.walk(s2)) for s2 in p.body)
                if t is True and not in_body:
                    justified = True
                if t is False and in_body:
                    justified = True
        if not justified:
            return False, f"the record appended for data[{table!r}] at line {st.lineno} carries no 'attrs' although the {table[:-1]} may have attributes on that path"
    return True, ""


# ------------------------------------------------------------------------------------------ hypergraph dict
def check_hdict(repo, res):
    w = fn_of(repo, "xgi.convert.hypergraph_dict", "to_hypergraph_dict")
    r = fn_of(repo, "xgi.convert.hypergraph_dict", "from_hypergraph_dict")
    wkeys = written_keys(w, "data")
    rkeys = {k for k, _ in subscript_keys(r, "data")} | membership_keys(r, "data")
    written_not_read = {"type"}  # the format is documented for one class; the reader ignores the type tag
    ok = (wkeys - written_not_read) == rkeys
    res.inst("T-KEYS", f"hypergraph-dict keys written {sorted(wkeys)} = read {sorted(rkeys)} (+ 'type', written only)", ok)
    if not ok:
        res.add(mk_finding(PROP, "T-KEYS", w, w.node, f"hypergraph dict: keys written {sorted(wkeys)} differ from keys read {sorted(rkeys)}: {sorted((wkeys - written_not_read) ^ rkeys)}", role="hdict"))
    casts = {"node-data": "nodetype", "edge-dict": "edgetype", "edge-data": "edgetype"}
    for key, typ in casts.items():
        ok = False
        for n in ast.walk(r.node):
            it = None
            if isinstance(n, ast.For):
                it, body, tgt = n.iter, n, n.target
            elif isinstance(n, ast.comprehension):
                it, body, tgt = n.iter, None, n.target
            if it is None:
                continue
            if not (isinstance(it, ast.Call) and getattr(it.func, "attr", "") == "items" and isinstance(it.func.value, ast.Subscript) and isinstance(it.func.value.slice, ast.Constant) and it.func.value.slice.value == key):
                continue
            kvar = tgt.elts[0].id if isinstance(tgt, ast.Tuple) and isinstance(tgt.elts[0], ast.Name) else None
            if kvar is None:
                continue
            scope = body if body is not None else next((p for p in ast.walk(r.node) if isinstance(p, (ast.DictComp, ast.ListComp, ast.SetComp, ast.GeneratorExp)) and n in p.generators), None)
            if scope is None:
                continue
            for c in ast.walk(scope):
                if isinstance(c, ast.Call) and isinstance(c.func, ast.Name) and c.func.id == typ and c.args and isinstance(c.args[0], ast.Name) and c.args[0].id == kvar:
                    ok = True
        # an unconditional pass-through branch for `typ is None` is fine as long as a casting branch exists
        res.inst("T-CAST", f"from_hypergraph_dict casts the keys of {key!r} with {typ}", ok)
        if not ok:
            res.add(mk_finding(PROP, "T-CAST", r, r.node, f"from_hypergraph_dict does not cast the IDs read from data[{key!r}] with `{typ}`; with a type given, nodes/edges and their attributes end up under different labels", role=key))
    # members of edge-dict are cast with nodetype
    ok = any(isinstance(c, ast.SetComp) and isinstance(c.elt, ast.Call) and getattr(c.elt.func, "id", "") == "nodetype" for c in ast.walk(r.node))
    res.inst("T-CAST", "from_hypergraph_dict casts the members of each edge with nodetype", ok)
    if not ok:
        res.add(mk_finding(PROP, "T-CAST", r, r.node, "from_hypergraph_dict does not cast edge members with `nodetype`", role="members"))
    # writer: every ID is written through str() consistently
    strs = [c for c in ast.walk(w.node) if isinstance(c, ast.Call) and getattr(c.func, "id", "") == "str"]
    res.inst("T-KEYS", f"to_hypergraph_dict casts IDs with str() at {len(strs)} sites", len(strs) >= 4)
    if len(strs) < 4:
        res.add(mk_finding(PROP, "T-KEYS", w, w.node, "to_hypergraph_dict no longer casts node IDs, edge IDs and members to strings consistently (node-data, edge-data and edge-dict would disagree on labels)", role="str"))


# ------------------------------------------------------------------------------------------ siblings
def check_siblings(repo, res):
    mi = repo.modules.get("xgi.convert.higher_order_network")
    if mi is None:
        raise AnalysisError("xgi.convert.higher_order_network not found (anchor vanished)")
    n = 0
    for fname in ("to_hypergraph", "to_dihypergraph", "to_simplicial_complex"):
        fn = mi.functions.get(fname)
        if fn is None:
            raise AnalysisError(f"{fname} not found (anchor vanished)")
        src = fn.params[0]

        def collect(stmts, out):
            for st in stmts:
                if isinstance(st, ast.If):
                    names = {x.id for x in ast.walk(st.test) if isinstance(x, ast.Name)}
                    isinst = any(isinstance(c, ast.Call) and getattr(c.func, "id", "") == "isinstance" and c.args and isinstance(c.args[0], ast.Name) and c.args[0].id == src for c in ast.walk(st.test))
                    if isinst and names & set(CORE_CLASSES):
                        out.append((st, sorted(names & set(CORE_CLASSES))))
                    collect(st.orelse, out)

        branches = []
        collect(fn.node.body, branches)
        for br, classes in branches:
            n += 1
            from .common import delegate_body

            owner, body, _ = delegate_body(repo, fn, br.body, src)
            br = ast.If(test=br.test, body=body, orelse=[], lineno=br.lineno, col_offset=0)
            calls = {c.func.attr for s in br.body for c in ast.walk(s) if isinstance(c, ast.Call) and isinstance(c.func, ast.Attribute)}
            assigned = {t.attr for s in br.body if isinstance(s, ast.Assign) for t in s.targets if isinstance(t, ast.Attribute)}
            edge_triples = any(isinstance(c, ast.Call) and getattr(c.func, "attr", "") in ("add_edges_from", "add_simplices_from") and c.args and isinstance(c.args[0], (ast.GeneratorExp, ast.ListComp)) and isinstance(c.args[0].elt, ast.Tuple) and len(c.args[0].elt.elts) == 3 for s in br.body for c in ast.walk(s))
            comp = {
                "nodes with attributes": "add_nodes_from" in calls,
                "edges with IDs and attributes": bool(calls & {"add_edges_from", "add_simplices_from"}) and edge_triples,
                "network attributes": "_net_attr" in assigned,
            }
            for what, ok in comp.items():
                res.inst("T-SIBLING", f"{fname}[{'/'.join(classes)}] transfers {what}", ok)
                if not ok:
                    res.add(mk_finding(PROP, "T-SIBLING", fn, br, f"{fname}: the branch for {'/'.join(classes)} input does not transfer the {what}, unlike its sibling branches", role=f"{'/'.join(classes)}:{what}"))
    res.floor("network-to-network converter branches", n, 4)


# ------------------------------------------------------------------------------------------ role
def check_role(repo, res):
    """from_bipartite_graph: which endpoint is the hyperedge is decided by membership in the recorded `edges` list, and for
    a DiGraph the direction of every membership is read off the arc that is being enumerated."""
    fn = fn_of(repo, "xgi.convert.bipartite_graph", "from_bipartite_graph")
    par = {}
    for p in ast.walk(fn.node):
        for ch in ast.iter_child_nodes(p):
            par[ch] = p
    gname = fn.params[0]

    def source_kind(it):
        """('arcs', None) for G.edges; ('pred'|'succ', e) for per-vertex arc enumerations; ('vertices', e) for neighbourhoods."""
        txt = unparse(it, 60)
        it2 = it.func if isinstance(it, ast.Call) and not it.args and isinstance(it.func, ast.Attribute) else it
        if isinstance(it2, ast.Attribute) and it2.attr == "edges" and isinstance(it2.value, ast.Name) and it2.value.id == gname:
            return "arcs", None
        if isinstance(it, ast.Call) and isinstance(it.func, ast.Attribute) and isinstance(it.func.value, ast.Name) and it.func.value.id == gname and it.args:
            a = it.func.attr
            if a in ("predecessors", "in_edges"):
                return "pred", it.args[0]
            if a in ("successors", "out_edges"):
                return "succ", it.args[0]
            if a in ("neighbors",):
                return "vertices", it.args[0]
        if isinstance(it, ast.Subscript) and isinstance(it.value, ast.Attribute) and isinstance(it.value.value, ast.Name) and it.value.value.id == gname:
            if it.value.attr == "pred":
                return "pred", it.slice
            if it.value.attr == "succ":
                return "succ", it.slice
            if it.value.attr == "adj":
                return "vertices", it.slice
        if isinstance(it, ast.Subscript) and isinstance(it.value, ast.Name) and it.value.id == gname:
            return "vertices", it.slice
        if isinstance(it, ast.Call) and getattr(it.func, "attr", getattr(it.func, "id", "")) == "all_neighbors" and len(it.args) == 2:
            return "vertices", it.args[1]
        if isinstance(it, ast.Name) and it.id in ("edges", "nodes"):
            return "role-list", it.id
        return None, txt

    def enclosing(c):
        loops, tests = [], []
        p = c
        while p in par:
            prev, p = p, par[p]
            if isinstance(p, ast.For):
                loops.append(p)
            if isinstance(p, ast.If) and prev is not p.test:
                tests.append((p.test, prev in p.body))
        return loops, tests

    def in_edges_fact(name, loops, tests):
        """Is `name` known to be one of the recorded hyperedge vertices at this call?"""
        for lp in loops:
            if isinstance(lp.iter, ast.Name) and lp.iter.id == "edges" and isinstance(lp.target, ast.Name) and lp.target.id == name:
                return True
        for t, branch in tests:
            if isinstance(t, ast.Compare) and len(t.ops) == 1 and isinstance(t.left, ast.Name) and isinstance(t.comparators[0], ast.Name) and t.left.id == name:
                lst, op = t.comparators[0].id, t.ops[0]
                if lst == "edges" and ((isinstance(op, ast.In) and branch) or (isinstance(op, ast.NotIn) and not branch)):
                    return True
                if lst == "nodes" and ((isinstance(op, ast.In) and not branch) or (isinstance(op, ast.NotIn) and branch)):
                    return True
        # else-branch of `other in edges` inside a loop over arcs (u, v): the graph was verified bipartite, so exactly one
        # endpoint of every arc is a hyperedge
        for lp in loops:
            if isinstance(lp.target, ast.Tuple) and len(lp.target.elts) == 2 and all(isinstance(e, ast.Name) for e in lp.target.elts):
                u, v = (e.id for e in lp.target.elts)
                other = v if name == u else (u if name == v else None)
                if other is None:
                    continue
                for t, branch in tests:
                    if isinstance(t, ast.Compare) and len(t.ops) == 1 and isinstance(t.left, ast.Name) and t.left.id == other and isinstance(t.comparators[0], ast.Name):
                        lst, op = t.comparators[0].id, t.ops[0]
                        if lst == "edges" and ((isinstance(op, ast.In) and not branch) or (isinstance(op, ast.NotIn) and branch)):
                            return True
                        if lst == "nodes" and ((isinstance(op, ast.In) and branch) or (isinstance(op, ast.NotIn) and not branch)):
                            return True
        return False

    # locals bound exactly once (flags such as `edge_first = v in edges`, bundled arguments such as
    # `incidence = (v, u) if edge_first else (u, v)`, `direction = dict(direction=...)`)
    once = {}
    for st in own_statements(fn.node):
        if isinstance(st, ast.Assign) and len(st.targets) == 1 and isinstance(st.targets[0], ast.Name):
            once.setdefault(st.targets[0].id, []).append(st.value)
    once = {k: v[0] for k, v in once.items() if len(v) == 1}

    def flag(t):
        """a test that is a once-bound local flag stands for the comparison it was bound to"""
        seen = 0
        while isinstance(t, ast.Name) and t.id in once and isinstance(once[t.id], (ast.Compare, ast.UnaryOp, ast.Name)) and seen < 4:
            t = once[t.id]
            seen += 1
        return t

    def ev(e, val):
        """[(expression, valuation)]: e with once-bound bundles dereferenced and conditional expressions split"""
        if isinstance(e, ast.Name) and e.id in once and isinstance(once[e.id], (ast.IfExp, ast.Tuple, ast.List, ast.Dict, ast.Call)) and (not isinstance(once[e.id], ast.Call) or getattr(once[e.id].func, "id", None) == "dict"):
            return ev(once[e.id], val)
        if isinstance(e, ast.IfExp):
            t = flag(e.test)
            k = ast.dump(t)
            if k in val:
                return ev(e.body if val[k][1] else e.orelse, val)
            return ev(e.body, {**val, k: (t, True)}) + ev(e.orelse, {**val, k: (t, False)})
        return [(e, val)]

    def virtual_sites(c, tests):
        """[(positional args, keyword map, extra tests)] for the call under every valuation of the conditional expressions
        that feed its arguments (*bundle and **bundle spliced)"""
        val0 = {ast.dump(flag(t)): (flag(t), b) for t, b in tests}
        states = [([], {}, val0)]
        for a in c.args:
            nxt = []
            for args, kws, val in states:
                for e, v2 in ev(a.value if isinstance(a, ast.Starred) else a, val):
                    if isinstance(a, ast.Starred):
                        if not isinstance(e, (ast.Tuple, ast.List)):
                            raise AnalysisError(f"from_bipartite_graph:{c.lineno}: cannot see what `*{unparse(a.value)}` holds (extractor does not recognise the code)")
                        nxt.append((args + list(e.elts), kws, v2))
                    else:
                        nxt.append((args + [e], kws, v2))
            states = nxt
        for k in c.keywords:
            nxt = []
            for args, kws, val in states:
                for e, v2 in ev(k.value, val):
                    if k.arg is not None:
                        nxt.append((args, {**kws, k.arg: e}, v2))
                        continue
                    if isinstance(e, ast.Call) and getattr(e.func, "id", None) == "dict" and not e.args and all(x.arg for x in e.keywords):
                        items = [(x.arg, x.value) for x in e.keywords]
                    elif isinstance(e, ast.Dict) and all(isinstance(x, ast.Constant) for x in e.keys):
                        items = [(x.value, y) for x, y in zip(e.keys, e.values)]
                    else:
                        raise AnalysisError(f"from_bipartite_graph:{c.lineno}: cannot see what `**{unparse(k.value)}` holds (extractor does not recognise the code)")
                    sub = [(dict(kws), v2)]
                    for key, vexpr in items:
                        sub = [({**kk, key: e2}, v3) for kk, vv in sub for e2, v3 in ev(vexpr, vv)]
                    nxt += [(args, kk, vv) for kk, vv in sub]
            states = nxt
        return [(args, kws, list(val.values())) for args, kws, val in states]

    sites = directed_sites = 0
    vsites = []
    for c in ast.walk(fn.node):
        if not (isinstance(c, ast.Call) and getattr(c.func, "attr", "") == "add_node_to_edge" and (len(c.args) >= 2 or any(isinstance(a, ast.Starred) for a in c.args))):
            continue
        loops, tests = enclosing(c)
        for args, kws, tests2 in virtual_sites(c, tests):
            if len(args) >= 2:
                vsites.append((c, loops, tests2, args, kws))
    for c, loops, tests, c_args, c_kws in vsites:
        sites += 1
        e_arg, n_arg = c_args[0], c_args[1]
        ok = isinstance(e_arg, ast.Name) and in_edges_fact(e_arg.id, loops, tests)
        res.inst("T-ROLE", f"from_bipartite_graph:{c.lineno} endpoint roles decided by membership test", ok)
        if not ok:
            res.add(mk_finding(PROP, "T-ROLE", fn, c, f"from_bipartite_graph: `{unparse(c, 50)}` assumes which endpoint of the graph edge is the hyperedge from its position; for an undirected graph that depends on the order in which the vertices were inserted", role="role"))
        dkw = [v for k, v in c_kws.items() if k == "direction"] + list(c_args[2:3])
        if not dkw:
            continue
        directed_sites += 1
        # the innermost loop that binds the node argument decides what is being enumerated
        src = None
        for lp in loops:
            names = {n.id for n in ast.walk(lp.target) if isinstance(n, ast.Name)}
            if isinstance(n_arg, ast.Name) and n_arg.id in names:
                src = (lp, source_kind(lp.iter))
                break
        if src is None:
            raise AnalysisError(f"from_bipartite_graph:{c.lineno}: cannot find the loop that enumerates `{unparse(n_arg)}` (extractor does not recognise the code)")
        lp, (kind, what) = src
        if kind is None:
            raise AnalysisError(f"from_bipartite_graph:{c.lineno}: unknown enumeration `{what}` for a directed membership (extractor does not recognise the code)")
        d = dkw[0]
        if kind in ("vertices", "role-list"):
            res.inst("T-ROLE", f"from_bipartite_graph:{c.lineno} direction read off the enumerated arc", False)
            res.add(mk_finding(PROP, "T-ROLE", fn, c, f"from_bipartite_graph: the direction of `{unparse(c, 60)}` is decided while enumerating vertices (`{unparse(lp.iter, 40)}`), not arcs; a node joined to the hyperedge by both arcs (in its tail and in its head) is visited without knowing which arc it stands for, so one of its two memberships is lost or doubled", role="direction"))
            continue
        if not (isinstance(d, ast.Constant) and d.value in ("in", "out")):
            raise AnalysisError(f"from_bipartite_graph:{c.lineno}: direction `{unparse(d)}` is not a literal (extractor does not recognise the code)")
        if kind == "arcs":
            u, v = (e.id for e in lp.target.elts) if isinstance(lp.target, ast.Tuple) and len(lp.target.elts) == 2 else (None, None)
            want = "in" if isinstance(e_arg, ast.Name) and e_arg.id == v else ("out" if isinstance(e_arg, ast.Name) and e_arg.id == u else None)
        else:
            want = "in" if kind == "pred" else "out"
        ok = want == d.value
        res.inst("T-ROLE", f"from_bipartite_graph:{c.lineno} direction {d.value!r} matches the arc orientation", ok)
        if not ok:
            res.add(mk_finding(PROP, "T-ROLE", fn, c, f"from_bipartite_graph: `{unparse(c, 60)}` records direction {d.value!r} for an arc whose orientation means {want!r} (to_bipartite_graph writes tail nodes as node->edge arcs); tail and head are exchanged on the way back", role="direction"))
    if sites < 2 or directed_sites < 1:
        raise AnalysisError("from_bipartite_graph: fewer add_node_to_edge sites than expected (extractor does not recognise the code)")
    # the writer side of the same convention: tail nodes are written as node->edge arcs, head nodes as edge->node arcs
    w = fn_of(repo, "xgi.convert.bipartite_graph", "to_bipartite_graph")
    from .common import inline_stmt_helpers

    check_bipartite_writer(res, inline_stmt_helpers(repo, w))


def check_bipartite_writer(res, w):
    """Writer side of T-ROLE.  Every `G.add_edge(a, b)` of to_bipartite_graph is classified by (i) which endpoint is the
    node vertex (the argument built from the node-label map / the variable that enumerates nodes) and (ii) what the
    node variable enumerates: the tail, the head, or the members (tail | head) of a directed edge.  Tail enumeration must
    write node->edge arcs, head enumeration edge->node arcs.  An arc written while enumerating the *union* under a
    membership test is accepted only in the positive branch of a test against the matching side; the `else` branch of a
    test against one side stands for "not in that side", which for a node in both tail and head silently drops the
    other arc."""
    par = {}
    for nd in ast.walk(w.node):
        for ch in ast.iter_child_nodes(nd):
            par[ch] = nd
    once = {}
    for st in ast.walk(w.node):
        if isinstance(st, ast.Assign) and len(st.targets) == 1 and isinstance(st.targets[0], ast.Name):
            once.setdefault(st.targets[0].id, []).append(st.value)
    once = {k: v[0] for k, v in once.items() if len(v) == 1}

    def side_of(e, depth=0):
        """'tail' | 'head' | 'members' | None for an expression that denotes (a map of) one side of directed edges"""
        if depth > 5 or e is None:
            return None
        if isinstance(e, ast.Name) and e.id in once:
            return side_of(once[e.id], depth + 1)
        if isinstance(e, ast.IfExp):
            return side_of(e.body, depth + 1) or side_of(e.orelse, depth + 1)
        if isinstance(e, ast.Call):
            a = getattr(e.func, "attr", None)
            if a in ("tail", "head"):
                return a
            if a in ("members", "dimembers"):
                return "members"
            if a in ("get", "items", "values", "copy") and isinstance(e.func, ast.Attribute):
                return side_of(e.func.value, depth + 1)
            if getattr(e.func, "id", None) in ("set", "list", "tuple", "sorted", "frozenset", "iter") and e.args:
                return side_of(e.args[0], depth + 1)
        if isinstance(e, ast.Subscript):
            if isinstance(e.slice, ast.Constant) and e.slice.value in ("in", "out"):
                return "tail" if e.slice.value == "in" else "head"
            return side_of(e.value, depth + 1)
        return None

    def enclosing_loops(c):
        out = []
        p = c
        while p in par:
            p = par[p]
            if isinstance(p, ast.For):
                out.append(p)
            elif isinstance(p, (ast.ListComp, ast.SetComp, ast.GeneratorExp, ast.DictComp)):
                out.extend(reversed(p.generators))
        return out

    def binding_side(name, loops):
        """side enumerated by the innermost enclosing loop that binds `name` as an element of a member set"""
        for k, lp in enumerate(loops):
            tnames = [n.id for n in ast.walk(lp.target) if isinstance(n, ast.Name)]
            if name not in tnames:
                continue
            it = lp.iter
            is_items = isinstance(it, ast.Call) and getattr(it.func, "attr", None) == "items"
            if is_items or not isinstance(lp.target, ast.Name):
                return None
            if isinstance(it, ast.Name):
                # the value variable of an enclosing `for e, members in X.items()` loop
                for outer in loops[k + 1:]:
                    oi = outer.iter
                    if isinstance(oi, ast.Call) and getattr(oi.func, "attr", None) == "items" and isinstance(outer.target, ast.Tuple) and len(outer.target.elts) == 2 and isinstance(outer.target.elts[1], ast.Name) and outer.target.elts[1].id == it.id:
                        return side_of(oi)
                return side_of(it)
            sd = side_of(it)
            if sd is not None and isinstance(it, ast.Call) and not it.args and not any(kw.arg == "dtype" for kw in it.keywords):
                return None  # iterating the whole view's member list: elements are sets, not nodes
            return sd
        return None

    var_side = {}

    def node_var_of(arg, loops):
        for nm in [n.id for n in ast.walk(arg) if isinstance(n, ast.Name)]:
            sd = binding_side(nm, loops)
            if sd is not None:
                var_side[("elem", nm)] = sd
                return nm
        return None

    handles_directed = any(isinstance(x, ast.Attribute) and x.attr in ("tail", "head", "dimembers") for x in ast.walk(w.node)) or any(isinstance(x, ast.Name) and x.id == "DiHypergraph" for x in ast.walk(w.node))
    n_w = n_dir = 0
    for c in ast.walk(w.node):
        if not (isinstance(c, ast.Call) and getattr(c.func, "attr", "") == "add_edge" and len(c.args) >= 2):
            continue
        lps = enclosing_loops(c)
        v0, v1 = node_var_of(c.args[0], lps), node_var_of(c.args[1], lps)
        if (v0 is None) == (v1 is None):
            raise AnalysisError(f"to_bipartite_graph:{c.lineno}: cannot tell which endpoint of `{unparse(c, 50)}` is the node vertex (extractor does not recognise the code)")
        first_is_node = v0 is not None
        nv = v0 or v1
        side = binding_side(nv, lps)
        n_w += 1
        # enclosing tests on the node variable
        tests = []
        p = c
        while p in par:
            prev, p = p, par[p]
            if isinstance(p, ast.If) and prev is not p.test:
                tests.append((p.test, prev in p.body))
        undirected_only = False
        for t, br in tests:
            tt = t
            neg = False
            while isinstance(tt, ast.UnaryOp) and isinstance(tt.op, ast.Not):
                tt, neg = tt.operand, not neg
            while isinstance(tt, ast.Name) and tt.id in once and once[tt.id] is not None and isinstance(once[tt.id], (ast.Call, ast.Compare, ast.Name)):
                tt = once[tt.id]
            txt = unparse(tt)
            if "DiHypergraph" in txt or "directed" in unparse(t):
                if (br != neg) is False:
                    undirected_only = True
        if side in ("tail", "head"):
            n_dir += 1
            ok = first_is_node == (side == "tail")
            res.inst("T-ROLE", f"to_bipartite_graph:{c.lineno} {side} nodes written as {'node->edge' if first_is_node else 'edge->node'} arcs", ok)
            if not ok:
                res.add(mk_finding(PROP, "T-ROLE", w, c, f"to_bipartite_graph writes {side} nodes as {'node->edge' if first_is_node else 'edge->node'} arcs, the opposite of what from_bipartite_graph reads", role=side))
            continue
        # the node variable enumerates all members of the edge
        if not handles_directed or undirected_only:
            ok = first_is_node
            res.inst("T-ROLE", f"to_bipartite_graph:{c.lineno} members of an undirected edge written as node->edge arcs", ok)
            if not ok:
                res.add(mk_finding(PROP, "T-ROLE", w, c, "to_bipartite_graph writes the members of an undirected edge as edge->node arcs; from_bipartite_graph reads node->edge", role="members"))
            continue
        # directed input possible here: which side does the guard establish for this arc?
        want = "tail" if first_is_node else "head"
        guard = None
        for t, br in tests:
            if isinstance(t, ast.Compare) and len(t.ops) == 1 and isinstance(t.ops[0], (ast.In, ast.NotIn)) and isinstance(t.left, ast.Name) and t.left.id == nv:
                sd = side_of(t.comparators[0])
                positive = isinstance(t.ops[0], ast.In) == br
                guard = (sd, positive, t)
                break
        n_dir += 1
        if guard is None:
            # unguarded: correct only for undirected input, where every member is written node->edge
            ok = first_is_node
            res.inst("T-ROLE", f"to_bipartite_graph:{c.lineno} unguarded arc for a member of the union", ok)
            if not ok:
                res.add(mk_finding(PROP, "T-ROLE", w, c, f"to_bipartite_graph: `{unparse(c, 50)}` writes an edge->node arc for every member of the edge", role="members"))
            continue
        sd, positive, t = guard
        ok = positive and sd == want
        res.inst("T-ROLE", f"to_bipartite_graph:{c.lineno} arc of a member of tail|head decided by a positive test against the {want}", ok)
        if not ok:
            res.add(mk_finding(PROP, "T-ROLE", w, c, f"to_bipartite_graph: `{unparse(c, 50)}` is written for a member enumerated once from tail|head in the {'positive' if positive else 'else'} branch of `{unparse(t, 40)}`; 'not in the {sd}' is taken to mean 'in the {want}' only, so a node that is in both the tail and the head of the edge gets one arc instead of two and the membership is lost on the way back", role="direction"))
    if n_w < 2 or (handles_directed and n_dir < 2):
        raise AnalysisError("to_bipartite_graph: tail/head arc writers not found (extractor does not recognise the code)")


BUILDERS = {"add_node_to_edge", "add_edge", "add_edges_from", "add_nodes_from", "add_node", "add_simplex", "add_simplices_from"}


def np_taint(fn_node):
    """Names whose value derives from np.array/np.asarray/np.fromiter applied to non-numeric data of the function
    (flow-insensitive closure; an index position inside a subscript does not propagate)."""
    params = {a.arg for a in fn_node.args.posonlyargs + fn_node.args.args + fn_node.args.kwonlyargs}
    local = {}
    for st in ast.walk(fn_node):
        if isinstance(st, ast.Assign) and len(st.targets) == 1 and isinstance(st.targets[0], ast.Name):
            local.setdefault(st.targets[0].id, []).append(st.value)

    def labelish(e, depth=0):
        """The expression carries node / edge labels: a table or view of a network, a `*label*` parameter, or a local
        bound to one (len(...) and the like do not carry labels)."""
        if depth > 3:
            return False
        if isinstance(e, ast.Call) and isinstance(e.func, ast.Name) and e.func.id in ("len", "range", "int", "float", "sum", "max", "min"):
            return False
        for n in ast.walk(e):
            if isinstance(n, ast.Attribute) and n.attr in ("nodes", "edges", "_node", "_edge"):
                return True
            if isinstance(n, ast.Name) and n.id in params and "label" in n.id:
                return True
            if isinstance(n, ast.Name) and n.id in local and any(labelish(v, depth + 1) for v in local[n.id]):
                return True
        return False

    def is_source(c):
        if not (isinstance(c, ast.Call) and isinstance(c.func, ast.Attribute) and isinstance(c.func.value, ast.Name) and c.func.value.id in ("np", "numpy") and c.args):
            return False
        if c.func.attr in ("array", "asarray", "fromiter", "asanyarray"):
            return not _numeric_literal(c.args[0])
        if c.func.attr in ("repeat", "tile", "concatenate", "hstack", "vstack", "unique", "sort", "take", "stack", "append"):
            return labelish(c.args[0])
        return False

    def carries(e, tainted):
        """Does the value of e derive from a tainted name / a source (ignoring subscript index positions and dict keys)?"""
        if isinstance(e, ast.Subscript):
            return carries(e.value, tainted)
        if isinstance(e, ast.Name):
            return e.id in tainted
        if is_source(e):
            return True
        if isinstance(e, ast.Call):
            if isinstance(e.func, ast.Attribute) and carries(e.func.value, tainted):
                return True
            if isinstance(e.func, ast.Name) and e.func.id in ("len", "range", "int", "float", "str", "bool", "sum", "max", "min"):
                return False
            return any(carries(a, tainted) for a in e.args)
        if isinstance(e, (ast.Tuple, ast.List, ast.Set)):
            return any(carries(x, tainted) for x in e.elts)
        if isinstance(e, (ast.ListComp, ast.SetComp, ast.GeneratorExp)):
            inner = set(tainted)
            for g in e.generators:
                if carries(g.iter, inner):
                    inner |= {n.id for n in ast.walk(g.target) if isinstance(n, ast.Name)}
            return carries(e.elt, inner)
        if isinstance(e, ast.IfExp):
            return carries(e.body, tainted) or carries(e.orelse, tainted)
        if isinstance(e, ast.Starred):
            return carries(e.value, tainted)
        return False

    tainted = set()
    changed = True
    while changed:
        changed = False
        for st in ast.walk(fn_node):
            new = set()
            if isinstance(st, ast.Assign) and carries(st.value, tainted):
                for t in st.targets:
                    new |= {n.id for n in ast.walk(t) if isinstance(n, ast.Name) and isinstance(n.ctx, ast.Store)}
            if isinstance(st, (ast.For, ast.comprehension)):
                it, tg = st.iter, st.target
                if isinstance(it, ast.Call) and isinstance(it.func, ast.Name) and it.func.id == "zip" and isinstance(tg, ast.Tuple) and len(tg.elts) == len(it.args):
                    for t, a in zip(tg.elts, it.args):
                        if carries(a, tainted):
                            new |= {n.id for n in ast.walk(t) if isinstance(n, ast.Name)}
                elif carries(it, tainted):
                    new |= {n.id for n in ast.walk(tg) if isinstance(n, ast.Name)}
            if new - tainted:
                tainted |= new
                changed = True
    return tainted, carries


def _numeric_literal(e):
    return isinstance(e, (ast.List, ast.Tuple)) and all(isinstance(x, ast.Constant) and isinstance(x.value, (int, float)) for x in e.elts)


def check_npid(repo, res):
    n = 0
    for mn, mi in sorted(repo.modules.items()):
        if not mn.startswith("xgi.convert."):
            continue
        for fn in mi.functions.values():
            sinks = [c for c in ast.walk(fn.node) if isinstance(c, ast.Call) and isinstance(c.func, ast.Attribute) and (c.func.attr in BUILDERS or (c.func.attr in ("DataFrame", "Series") and isinstance(c.func.value, ast.Name) and c.func.value.id in ("pd", "pandas")))]
            if not sinks:
                continue
            tainted, carries = np_taint(fn.node)
            for c in sinks:
                n += 1
                vals = list(c.args) + [k.value for k in c.keywords]
                vals += [v for a in list(vals) if isinstance(a, ast.Dict) for v in a.values]
                bad = [a for a in vals if carries(a, tainted)]
                res.inst("T-NPID", f"{fn.qualname}:{c.lineno} {c.func.attr}(...) receives labels that never passed through a NumPy array", not bad)
                if bad:
                    res.add(mk_finding(PROP, "T-NPID", fn, c, f"{fn.qualname}: `{unparse(bad[0], 40)}` handed to {c.func.attr}() was taken out of a NumPy array built from the labels; NumPy stores one element type, so a label list that mixes integers and strings comes back as strings (and Python ints as NumPy scalars) - the IDs of the converted network differ from the labels given", role=c.func.attr))
    res.floor("network-building calls in the converters", n, 25)


def check_flow(repo, res):
    from .common import dead_parameters

    n = 0
    for mn, mi in sorted(repo.modules.items()):
        if not mn.startswith("xgi.convert."):
            continue
        for fn in mi.functions.values():
            if fn.name.startswith("_"):
                continue
            body = [b for b in fn.node.body if not (isinstance(b, ast.Expr) and isinstance(b.value, ast.Constant))]
            if all(isinstance(b, ast.Raise) for b in body):
                continue
            n += 1
            dead = dead_parameters(fn.node)
            res.inst("T-FLOW", f"{fn.fq}: every parameter influences the result ({len(fn.all_params)} parameters)", not dead)
            for p in dead:
                res.add(mk_finding(PROP, "T-FLOW", fn, fn.node, f"{fn.qualname}: the parameter `{p}` cannot influence what the converter builds or returns (it is only checked, or stored in a name nothing reads); that part of the input is silently dropped in the conversion", role=p))
    res.floor("public converters checked for dead parameters", n, 25)
