"""C07 - Copies, pickles and network-to-network constructors are equal and independent (independence and
completeness of the transferred state, decided statically).

A1-DEEP     in copy() every attribute dict / network-attribute dict of the source that flows into the new network
            is wrapped in deepcopy (nested values must not be shared).
A1-STRUCT   where copy() fills the copy's member tables directly, the stored value is fresh down to the member sets
            (a DiHypergraph entry is a dict of two sets: `.copy()` of it still shares both sets).
A1-SHALLOW  in the network-to-network branches of to_hypergraph / to_dihypergraph / to_simplicial_complex the network
            attributes are copied and attribute dicts reach the new network only through deepcopy or through a bulk
            mutator (which copies the entries).
A1-MUT      no method of the three classes stores a caller-supplied object into a table: every value assigned to
            _node/_edge/_node_attr/_edge_attr entries is freshly built (set(), set(x), frozenset(x), {...}, factory()),
            a local bound to such a value, or a frozenset parameter of a private helper.
A2          pickling: the keys returned by __getstate__ = the keys read by __setstate__ = the attributes assigned in
            __init__ minus the two views, which __setstate__ rebuilds.
A3          copy() builds the result with self.__class__(), transfers all nodes, all edges with their IDs, the network
            attributes and the ID counter, without filtering.
"""
from __future__ import annotations

import ast

from ..cfg import own_nodes, own_statements
from ..model import CORE_CLASSES, AnalysisError
from ..report import Result, mk_finding
from .common import unparse

PROP = "C07"
TABLES = ("_node", "_edge", "_node_attr", "_edge_attr")
FRESH_CALLS = {"set", "frozenset", "dict", "list", "IDDict", "defaultdict"}
BULK = {"add_nodes_from", "add_edges_from", "add_simplices_from"}


def run(ctx):
    repo = ctx.repo
    res = Result(PROP)
    res.rules = ["A1-DEEP", "A1-STRUCT", "A1-SHALLOW", "A1-MUT", "A2", "A3", "U-OWN", "U-COPY", "U-PROV", "U-GUARD", "U-BUMP", "R-ENC"]
    res.explanation = (
        "Escape rules at every network-to-network transfer site (3 copy methods, the isinstance(data, <network class>) "
        "branches of the converters the constructors delegate to) and on every table store of the three classes: source "
        "state reaches the new network only through a copy barrier (deep in copy()), stored values are always fresh, the "
        "pickle state tables agree with __init__, and copy() transfers every component unfiltered."
    )
    n_flows = 0
    for cname in CORE_CLASSES:
        ci = repo.get_class(cname)
        cp = repo.find_method(ci, "copy")
        if cp is None:
            raise AnalysisError(f"{cname}.copy not found (anchor vanished)")
        n_flows += check_copy(res, cp, cname, repo)
        check_pickle(repo, res, ci, cname)
    n_flows += check_converters(repo, res)
    res.floor("transfer flows examined", n_flows, 30)
    check_mutator_stores(repo, res)
    # "both keep assigning fresh edge IDs": the counter's owners and its transfer (shared with C04)
    from ..effects import Effects
    from .c04_uid import check_owners, site_checks
    from .incidence_rules import check_enc

    check_owners(repo, res, PROP)
    # the network-to-network constructors rebuild the new network through the bulk adders with the source's own IDs;
    # "both keep assigning fresh edge IDs" then needs the per-site counter rules of every class (U-GUARD, U-BUMP: the
    # counter passes every transferred ID), and "independent" needs that nothing outside the classes writes the
    # tables (R-ENC: a converter that fills the new network's tables itself can share the source's member sets)
    if not ctx.only:
        eng = Effects(repo)
        n, _ = site_checks(ctx, repo, eng, res, tuple(CORE_CLASSES), PROP)
        res.floor("insertion sites of new edge keys (all classes)", n, 8)
        check_enc(ctx, res, PROP, eng)
    return res


# ------------------------------------------------------------------------------------------
def view_names(fn_node, src):
    """Local names bound to src.nodes / src.edges."""
    out = {}
    for st in own_statements(fn_node):
        if isinstance(st, ast.Assign) and len(st.targets) == 1 and isinstance(st.targets[0], ast.Name):
            v = st.value
            if isinstance(v, ast.Attribute) and v.attr in ("nodes", "edges") and isinstance(v.value, ast.Name) and v.value.id == src:
                out[st.targets[0].id] = v.attr
    return out


def is_view_expr(e, src, vnames):
    if isinstance(e, ast.Name) and e.id in vnames:
        return vnames[e.id]
    if isinstance(e, ast.Attribute) and e.attr in ("nodes", "edges") and isinstance(e.value, ast.Name) and e.value.id == src:
        return e.attr
    return None


def source_attr_exprs(call_or_expr, src, vnames):
    """Sub-expressions denoting attribute dicts of the source network inside an expression, with their parents."""
    found = []
    parents = {}
    for p in ast.walk(call_or_expr):
        for ch in ast.iter_child_nodes(p):
            parents[ch] = p
    attr_names = set()
    for n in ast.walk(call_or_expr):
        if isinstance(n, ast.comprehension):
            it = n.iter
            # for k, attr in <view>.items()
            if isinstance(it, ast.Call) and isinstance(it.func, ast.Attribute) and it.func.attr == "items" and is_view_expr(it.func.value, src, vnames):
                if isinstance(n.target, ast.Tuple) and len(n.target.elts) == 2 and isinstance(n.target.elts[1], ast.Name):
                    attr_names.add(n.target.elts[1].id)
            if isinstance(it, ast.Call) and isinstance(it.func, ast.Attribute) and it.func.attr == "items" and isinstance(it.func.value, ast.Attribute) and it.func.value.attr in ("_node_attr", "_edge_attr"):
                if isinstance(n.target, ast.Tuple) and len(n.target.elts) == 2 and isinstance(n.target.elts[1], ast.Name):
                    attr_names.add(n.target.elts[1].id)
            if isinstance(it, ast.Call) and isinstance(it.func, ast.Attribute) and it.func.attr == "values" and isinstance(it.func.value, ast.Attribute) and it.func.value.attr in ("_node_attr", "_edge_attr") and isinstance(n.target, ast.Name):
                attr_names.add(n.target.id)
    for n in ast.walk(call_or_expr):
        hit = False
        if isinstance(n, ast.Name) and n.id in attr_names and isinstance(n.ctx, ast.Load):
            hit = True
        if isinstance(n, ast.Subscript) and (is_view_expr(n.value, src, vnames) or (isinstance(n.value, ast.Attribute) and n.value.attr in ("_node_attr", "_edge_attr") and isinstance(n.value.value, ast.Name) and n.value.value.id == src)):
            hit = True
        if isinstance(n, ast.Attribute) and n.attr == "_net_attr" and isinstance(n.value, ast.Name) and n.value.id == src:
            hit = True
        if hit:
            found.append((n, parents.get(n)))
    return found


def wrapped_in(node, parent, names):
    return isinstance(parent, ast.Call) and isinstance(parent.func, (ast.Name, ast.Attribute)) and (getattr(parent.func, "id", None) in names or getattr(parent.func, "attr", None) in names) and node in parent.args


def transfer_sites(fn_node, new):
    """Calls new.<m>(...) and assignments new.<attr> = ... in a function body."""
    calls, assigns = [], []
    for st in own_statements(fn_node):
        for c in own_nodes(st):
            if isinstance(c, ast.Call) and isinstance(c.func, ast.Attribute) and isinstance(c.func.value, ast.Name) and c.func.value.id == new:
                calls.append((st, c))
        if isinstance(st, ast.Assign):
            for t in st.targets:
                if isinstance(t, ast.Attribute) and isinstance(t.value, ast.Name) and t.value.id == new:
                    assigns.append((st, t.attr))
    return calls, assigns


def direct_fills(fn_node, new, src):
    """(stmt, table, key expr, value expr, enclosing For) for `new.<table>[key] = value`."""
    out = []

    def rec(stmts, loop):
        for st in stmts:
            if isinstance(st, (ast.FunctionDef, ast.AsyncFunctionDef, ast.ClassDef)):
                continue
            if isinstance(st, ast.Assign):
                for t in st.targets:
                    if isinstance(t, ast.Subscript) and isinstance(t.value, ast.Attribute) and t.value.attr in TABLES and isinstance(t.value.value, ast.Name) and t.value.value.id == new:
                        out.append((st, t.value.attr, t.slice, st.value, loop))
            inner = st if isinstance(st, ast.For) else loop
            for field in ("body", "orelse", "finalbody"):
                sub = getattr(st, field, None)
                if isinstance(sub, list):
                    rec(sub, inner if field == "body" else loop)
            for h in getattr(st, "handlers", []) or []:
                rec(h.body, loop)

    rec(fn_node.body, None)
    return out


def _is_factory(v):
    return isinstance(v, ast.Call) and isinstance(v.func, ast.Attribute) and v.func.attr.endswith("_factory")


def fresh_depth(v, fn_node, depth=0):
    """How many container levels of the value are newly built here: 0 = the source's own object, 1 = a new outer container
    (set(x), x.copy(), {..: x[..]}), 2 = new outer and new inner containers, 9 = deepcopy / no source object inside."""
    if depth > 4:
        return 0
    if isinstance(v, ast.Call):
        name = getattr(v.func, "id", getattr(v.func, "attr", None))
        if name == "deepcopy":
            return 9
        if name in ("set", "frozenset", "list", "tuple", "dict") and isinstance(v.func, ast.Name):
            return 9 if not v.args else 1
        if name == "copy" and isinstance(v.func, ast.Attribute) and not v.args:
            return 1
        if name == "copy" and isinstance(v.func, ast.Name) and v.args:
            return 1
        return 0
    if isinstance(v, ast.Dict):
        if not v.values:
            return 9
        return 1 + min(fresh_depth(x, fn_node, depth + 1) for x in v.values)
    if isinstance(v, ast.DictComp):
        return 1 + fresh_depth(v.value, fn_node, depth + 1)
    if isinstance(v, (ast.Set, ast.List, ast.Tuple)):
        return 9 if not v.elts else 1
    if isinstance(v, (ast.SetComp, ast.ListComp)):
        return 1
    if isinstance(v, ast.Name):
        defs = [st.value for st in own_statements(fn_node) if isinstance(st, ast.Assign) and any(isinstance(t, ast.Name) and t.id == v.id for t in st.targets)]
        if defs:
            return min(fresh_depth(d, fn_node, depth + 1) for d in defs)
    return 0


CONVERTER_OF = {"Hypergraph": "to_hypergraph", "DiHypergraph": "to_dihypergraph", "SimplicialComplex": "to_simplicial_complex"}


def check_copy(res, cp, cname, repo=None):
    src = cp.params[0]
    new = None
    delegated = False
    for st in own_statements(cp.node):
        if isinstance(st, ast.Assign) and isinstance(st.value, ast.Call) and isinstance(st.value.func, ast.Attribute) and st.value.func.attr == "__class__" and isinstance(st.targets[0], ast.Name):
            new = st.targets[0].id
            delegated = bool(st.value.args) and isinstance(st.value.args[0], ast.Name) and st.value.args[0].id == src
    ok = new is not None
    res.inst("A3", f"{cp.qualname} (as {cname}) builds the result with self.__class__()", ok)
    if not ok:
        res.add(mk_finding(PROP, "A3", cp, cp.node, f"{cp.qualname} does not build its result with self.__class__() (a subclass or the instance-level freeze shadows would be mishandled)", role=cname))
        return 0
    if delegated and repo is not None:
        # copy() hands the source to the constructor: the transfer is the network branch of the converter the
        # constructor delegates to, and copy()'s stronger obligation (nested attribute values are not shared) applies
        # to the flows of that branch
        conv = None
        for mi in repo.modules.values():
            if CONVERTER_OF.get(cname) in mi.functions:
                conv = mi.functions[CONVERTER_OF[cname]]
        if conv is None:
            raise AnalysisError(f"{cp.qualname} delegates to the constructor but {CONVERTER_OF.get(cname)} was not found (anchor vanished)")
        datap = conv.params[0]
        branch = None
        for st in ast.walk(conv.node):
            if isinstance(st, ast.If) and isinstance(st.test, ast.Call) and getattr(st.test.func, "id", None) == "isinstance" and len(st.test.args) == 2 and isinstance(st.test.args[0], ast.Name) and st.test.args[0].id == datap and cname in unparse(st.test.args[1], 80).replace("(", " ").replace(")", " ").replace(",", " ").split():
                branch = st
                break
        if branch is None:
            raise AnalysisError(f"{conv.qualname}: no isinstance({datap}, {cname}) branch (extractor does not recognise the code)")
        bnew = None
        for st in branch.body:
            if isinstance(st, ast.Assign) and len(st.targets) == 1 and isinstance(st.targets[0], ast.Name) and isinstance(st.value, ast.Call):
                bnew = st.targets[0].id
                break
        if bnew is None:
            raise AnalysisError(f"{conv.qualname}: the {cname} branch does not create the new network in a local (extractor does not recognise the code)")
        pseudo = ast.FunctionDef(name=conv.name, args=conv.node.args, body=branch.body, decorator_list=[], returns=None, type_comment=None, type_params=[])
        ast.copy_location(pseudo, branch)
        n, called, assigned, filled = _check_transfer(res, conv, pseudo, datap, bnew, cname, via=f"{cp.qualname} -> {cname}(self) -> ")
        _, own_assigns = transfer_sites(cp.node, new)
        assigned |= {a for _, a in own_assigns}
        for st, attr in own_assigns:
            for node, parent in (source_attr_exprs(st.value, src, view_names(cp.node, src)) or []):
                ok = wrapped_in(node, parent, {"deepcopy"})
                res.inst("A1-DEEP", f"{cp.qualname}:{st.lineno} `{unparse(node, 30)}` -> {new}.{attr}", ok)
                if not ok:
                    res.add(mk_finding(PROP, "A1-DEEP", cp, st, f"{cp.qualname}: `{unparse(node, 40)}` is assigned to the copy's {attr} without deepcopy; the two networks would share it", role=f"{cname}:{attr}"))
        return n + _completeness(res, cp, cname, called, assigned, filled, [])
    n, called, assigned, filled, calls = _check_transfer(res, cp, cp.node, src, new, cname, want_calls=True)
    return n + _completeness(res, cp, cname, called, assigned, filled, calls)


def _check_transfer(res, cp, fnode, src, new, cname, via="", want_calls=False):
    """A1-DEEP / A1-STRUCT over the statements of fnode that move state from `src` into `new`."""
    qual = via + cp.qualname
    vnames = view_names(fnode, src)
    calls, assigns = transfer_sites(fnode, new)
    n = 0
    for st, c in calls:
        for node, parent in source_attr_exprs(c, src, vnames):
            n += 1
            ok = wrapped_in(node, parent, {"deepcopy"})
            res.inst("A1-DEEP", f"{qual}:{st.lineno} `{unparse(node, 30)}` -> {new}.{c.func.attr}", ok)
            if not ok:
                res.add(mk_finding(PROP, "A1-DEEP", cp, st, f"{qual}: the source's attribute dict `{unparse(node, 40)}` flows into the copy through {c.func.attr}() without deepcopy; nested attribute values would be shared between the two networks", role=f"{cname}:{c.func.attr}"))
    for st, attr in assigns:
        found = source_attr_exprs(st.value, src, vnames)
        if isinstance(st.value, ast.Attribute) and st.value.attr == "_net_attr":
            found = [(st.value, None)]
        for node, parent in found:
            n += 1
            ok = wrapped_in(node, parent, {"deepcopy"})
            res.inst("A1-DEEP", f"{qual}:{st.lineno} `{unparse(node, 30)}` -> {new}.{attr}", ok)
            if not ok:
                res.add(mk_finding(PROP, "A1-DEEP", cp, st, f"{qual}: `{unparse(node, 40)}` is assigned to the copy's {attr} without deepcopy; the two networks would share it", role=f"{cname}:{attr}"))
    # direct fills of the copy's tables (new._edge[idx] = ...): the stored value must be fresh down to the member sets
    direct = direct_fills(fnode, new, src)
    depth_needed = 2 if cname == "DiHypergraph" else 1
    filled = set()
    for st, table, key, val, loop in direct:
        n += 1
        if table in ("_node_attr", "_edge_attr"):
            ok = isinstance(val, ast.Call) and getattr(val.func, "id", getattr(val.func, "attr", None)) == "deepcopy" or _is_factory(val)
            res.inst("A1-DEEP", f"{qual}:{st.lineno} `{unparse(val, 30)}` -> {new}.{table}[...]", ok)
            if not ok:
                res.add(mk_finding(PROP, "A1-DEEP", cp, st, f"{qual}: `{unparse(val, 40)}` is stored in the copy's {table} without deepcopy; nested attribute values would be shared between the two networks", role=f"{cname}:{table}"))
        else:
            d = fresh_depth(val, fnode)
            ok = d >= depth_needed
            res.inst("A1-STRUCT", f"{qual}:{st.lineno} `{unparse(val, 30)}` -> {new}.{table}[...] is fresh to depth {d} (needed {depth_needed})", ok)
            if not ok:
                what = "the tail and head sets inside it are still the source's own sets" if depth_needed == 2 and d == 1 else "the stored object is the source's own"
                res.add(mk_finding(PROP, "A1-STRUCT", cp, st, f"{qual}: `{unparse(val, 40)}` stored in the copy's {table} is not copied deeply enough ({what}); adding or removing a member in one network changes the other", role=f"{cname}:{table}"))
        if loop is not None and isinstance(loop.iter, ast.Call) and isinstance(loop.iter.func, ast.Attribute) and loop.iter.func.attr == "items" and isinstance(loop.iter.func.value, ast.Attribute) and loop.iter.func.value.attr == table and isinstance(loop.iter.func.value.value, ast.Name) and loop.iter.func.value.value.id == src:
            if isinstance(loop.target, ast.Tuple) and isinstance(loop.target.elts[0], ast.Name) and isinstance(key, ast.Name) and key.id == loop.target.elts[0].id:
                filled.add(table)
    if "_edge" in filled:
        # the node side must be mirrored in the same function
        mirrored = any(isinstance(c, ast.Call) and isinstance(c.func, ast.Attribute) and c.func.attr == "add" and f"{new}._node[" in unparse(c.func.value, 80) for c in ast.walk(fnode))
        res.inst("A3", f"{qual} (as {cname}) mirrors the directly filled edges in the copy's node table", mirrored)
        if not mirrored:
            res.add(mk_finding(PROP, "A3", cp, fnode, f"{qual} fills the copy's _edge table directly but never records the memberships in its _node table", role=f"{cname}:mirror"))
    called = {c.func.attr for _, c in calls}
    assigned = {a for _, a in assigns}
    if want_calls:
        return n, called, assigned, filled, calls
    return n, called, assigned, filled


def _completeness(res, cp, cname, called, assigned, filled, calls):
    n = 0
    # A3: completeness
    need = [("nodes", bool(called & {"add_nodes_from"}) or "_node" in filled), ("edges", bool(called & {"add_edges_from", "add_simplices_from"}) or "_edge" in filled), ("_net_attr", "_net_attr" in assigned), ("_edge_uid", "_edge_uid" in assigned)]
    for what, ok in need:
        n += 1
        res.inst("A3", f"{cp.qualname} (as {cname}) transfers {what}", ok)
        if not ok:
            res.add(mk_finding(PROP, "A3", cp, cp.node, f"{cp.qualname} does not transfer {what} to the copy", role=f"{cname}:{what}"))
    for st, c in calls:
        if c.func.attr in BULK and c.args:
            g = c.args[0]
            if isinstance(g, (ast.GeneratorExp, ast.ListComp)):
                unfiltered = all(not gen.ifs for gen in g.generators)
                n += 1
                res.inst("A3", f"{cp.qualname}:{st.lineno} {c.func.attr} transfers every element (no filter)", unfiltered)
                if not unfiltered:
                    res.add(mk_finding(PROP, "A3", cp, st, f"{cp.qualname}: {c.func.attr}() receives a filtered selection of the source's elements", role=f"{cname}:{c.func.attr}:filter"))
                if c.func.attr != "add_nodes_from":
                    with_ids = isinstance(g.elt, ast.Tuple) and len(g.elt.elts) == 3
                    res.inst("A3", f"{cp.qualname}:{st.lineno} edges are transferred with their IDs", with_ids)
                    if not with_ids:
                        res.add(mk_finding(PROP, "A3", cp, st, f"{cp.qualname}: edges are not transferred as (members, id, attributes) triples, so edge IDs or attributes of the copy can differ", role=f"{cname}:ids"))
    return n


def check_pickle(repo, res, ci, cname):
    gs, ss, init = repo.find_method(ci, "__getstate__"), repo.find_method(ci, "__setstate__"), repo.find_method(ci, "__init__")
    if not (gs and ss and init):
        raise AnalysisError(f"{cname}: __getstate__/__setstate__/__init__ not found (anchor vanished)")
    gkeys, bad_vals = set(), []
    for r in ast.walk(gs.node):
        if isinstance(r, ast.Return) and isinstance(r.value, ast.Dict):
            for k, v in zip(r.value.keys, r.value.values):
                if isinstance(k, ast.Constant):
                    gkeys.add(k.value)
                    if not (isinstance(v, ast.Attribute) and v.attr == k.value):
                        bad_vals.append(k.value)
    skeys = set()
    sassigned = set()
    for st in own_statements(ss.node):
        if isinstance(st, ast.Assign):
            for t in st.targets:
                if isinstance(t, ast.Attribute) and isinstance(t.value, ast.Name) and t.value.id == ss.params[0]:
                    sassigned.add(t.attr)
                    if isinstance(st.value, ast.Subscript) and isinstance(st.value.slice, ast.Constant):
                        skeys.add(st.value.slice.value)
                        if st.value.slice.value != t.attr:
                            bad_vals.append(t.attr)
    iattrs = set()
    for st in own_statements(init.node):
        if isinstance(st, ast.Assign):
            for t in st.targets:
                if isinstance(t, ast.Attribute) and isinstance(t.value, ast.Name) and t.value.id == init.params[0]:
                    iattrs.add(t.attr)
    views = {"_nodeview", "_edgeview"}
    ok = gkeys == skeys == (iattrs - views) and not bad_vals and views <= sassigned
    res.inst("A2", f"{cname}: getstate keys = setstate keys = __init__ attributes minus views ({len(gkeys)} keys)", ok, sample={"rule": "A2", "class": cname, "getstate": sorted(gkeys), "setstate": sorted(skeys), "init": sorted(iattrs)})
    if not ok:
        diff = sorted((gkeys ^ skeys) | (gkeys ^ (iattrs - views)))
        res.add(mk_finding(PROP, "A2", gs, gs.node, f"{cname}: pickle state tables disagree (differing keys {diff}, mismatched values {sorted(set(bad_vals))}, views rebuilt: {sorted(views & sassigned)}); a pickle round trip would lose or mix up state", role=cname))


def check_converters(repo, res):
    mi = repo.modules.get("xgi.convert.higher_order_network")
    if mi is None:
        raise AnalysisError("xgi.convert.higher_order_network not found (anchor vanished)")
    n = 0
    nb = 0
    for fname in ("to_hypergraph", "to_dihypergraph", "to_simplicial_complex"):
        fn = mi.functions.get(fname)
        if fn is None:
            raise AnalysisError(f"{fname} not found (anchor vanished)")
        src = fn.params[0]
        node = fn.node.body
        branches = []

        def collect(stmts):
            for st in stmts:
                if isinstance(st, ast.If):
                    names = {x.id for x in ast.walk(st.test) if isinstance(x, ast.Name)}
                    isinst = any(isinstance(c, ast.Call) and getattr(c.func, "id", "") == "isinstance" and c.args and isinstance(c.args[0], ast.Name) and c.args[0].id == src for c in ast.walk(st.test))
                    if isinst and names & set(CORE_CLASSES):
                        branches.append((st, sorted(names & set(CORE_CLASSES))))
                    collect(st.orelse)

        collect(node)
        for br, classes in branches:
            nb += 1
            new = None
            from .common import delegate_body

            owner, body, bsrc = delegate_body(repo, fn, br.body, src)
            br = ast.If(test=br.test, body=body, orelse=[], lineno=br.lineno, col_offset=0)
            src_saved, src = src, bsrc
            for st in br.body:
                if isinstance(st, ast.Assign) and isinstance(st.value, ast.Call) and isinstance(st.targets[0], ast.Name) and getattr(st.value.func, "id", "").startswith("empty_"):
                    new = st.targets[0].id
            if new is None:
                raise AnalysisError(f"{fname}: network-to-network branch at line {br.lineno} does not build its result with empty_*() (extractor does not recognise the code)")
            wrapper = ast.FunctionDef(name="_", args=fn.node.args, body=br.body, decorator_list=[], lineno=br.lineno)
            vnames = view_names(wrapper, src)
            calls, assigns = transfer_sites(wrapper, new)
            for st, c in calls:
                for nd, parent in source_attr_exprs(c, src, vnames):
                    n += 1
                    in_tuple_of_bulk = c.func.attr in BULK and isinstance(parent, ast.Tuple)
                    ok = wrapped_in(nd, parent, {"deepcopy", "copy", "dict"}) or in_tuple_of_bulk
                    res.inst("A1-SHALLOW", f"{fname}[{'/'.join(classes)}]:{st.lineno} `{unparse(nd, 30)}` -> {c.func.attr}", ok)
                    if not ok:
                        res.add(mk_finding(PROP, "A1-SHALLOW", fn, st, f"{fname}: attribute dict `{unparse(nd, 40)}` of the source reaches the new network without a copy barrier", role=f"{classes}:{c.func.attr}"))
            for st, attr in assigns:
                if attr in TABLES + ("_net_attr",):
                    n += 1
                    v = st.value
                    ok = isinstance(v, ast.Call) and (getattr(v.func, "id", None) in ("deepcopy", "copy", "dict") or getattr(v.func, "attr", None) == "copy")
                    res.inst("A1-SHALLOW", f"{fname}[{'/'.join(classes)}]:{st.lineno} {new}.{attr} <- `{unparse(v, 40)}`", ok)
                    if not ok:
                        res.add(mk_finding(PROP, "A1-SHALLOW", fn, st, f"{fname}: `{unparse(v, 50)}` is assigned to the new network's {attr} without a copy; source and result would share it", role=f"{classes}:{attr}"))
            src = src_saved
    res.floor("network-to-network converter branches", nb, 4)
    return n


def check_mutator_stores(repo, res):
    """A1-MUT: values stored in the four tables are always fresh or immutable."""
    n = 0
    for cname in CORE_CLASSES:
        ci = repo.get_class(cname)
        for m in ci.methods.values():
            if m.name in ("__init__", "__setstate__"):
                continue
            selfn = m.params[0] if m.params else "self"
            local_defs = {}
            for st in own_statements(m.node):
                if isinstance(st, ast.Assign):
                    for t in st.targets:
                        if isinstance(t, ast.Name):
                            local_defs.setdefault(t.id, []).append(st.value)
                        elif isinstance(t, (ast.Tuple, ast.List)) and isinstance(st.value, (ast.Tuple, ast.List)) and len(t.elts) == len(st.value.elts):
                            for te, ve in zip(t.elts, st.value.elts):
                                if isinstance(te, ast.Name):
                                    local_defs.setdefault(te.id, []).append(ve)
                elif isinstance(st, ast.AugAssign) and isinstance(st.target, ast.Name):
                    local_defs.setdefault(st.target.id, []).append(ast.Call(func=ast.Name(id="set", ctx=ast.Load()), args=[], keywords=[]))
            for st in own_statements(m.node):
                if not isinstance(st, ast.Assign):
                    continue
                for t in st.targets:
                    if isinstance(t, ast.Subscript) and isinstance(t.value, ast.Attribute) and t.value.attr in TABLES and isinstance(t.value.value, ast.Name) and t.value.value.id == selfn:
                        n += 1
                        ok, why = fresh_value(repo, ci, m, st.value, local_defs, depth=0)
                        res.inst("A1-MUT", f"{m.qualname}:{st.lineno} `{unparse(st, 60)}`", ok)
                        if not ok:
                            res.add(mk_finding(PROP, "A1-MUT", m, st, f"{m.qualname} stores {why} into self.{t.value.attr}; a caller-supplied mutable object kept by reference is shared with whoever passed it (another network, in copy()/constructors)", role=t.value.attr))
    res.floor("table stores checked for freshness", n, 40)


def fresh_value(repo, ci, m, v, local_defs, depth):
    if isinstance(v, ast.Call):
        f = v.func
        name = f.id if isinstance(f, ast.Name) else f.attr if isinstance(f, ast.Attribute) else None
        if name in FRESH_CALLS or name == "copy" or name == "deepcopy" or (name or "").endswith("_dict_factory") or name in ("union", "intersection", "difference", "symmetric_difference"):
            return True, ""
        return False, f"the result of `{unparse(v, 40)}`"
    if isinstance(v, (ast.Set, ast.SetComp, ast.ListComp, ast.DictComp)):
        return True, ""
    if isinstance(v, ast.Dict):
        for x in v.values:
            ok, why = fresh_value(repo, ci, m, x, local_defs, depth)
            if not ok:
                return ok, why
        return True, ""
    if isinstance(v, ast.BinOp):
        return True, ""
    if isinstance(v, ast.Name):
        if v.id in local_defs and depth < 3:
            for d in local_defs[v.id]:
                ok, why = fresh_value(repo, ci, m, d, local_defs, depth + 1)
                if not ok:
                    return False, why
            return True, ""
        if v.id in m.params and m.name.startswith("_") and not m.name.startswith("__"):
            # parameter of a private helper: every call site in the class passes frozenset(...)
            pidx = m.params.index(v.id) - 1
            sites = 0
            for g in ci.methods.values():
                gs = g.params[0] if g.params else "self"
                gdefs = {}
                for st in own_statements(g.node):
                    if isinstance(st, ast.Assign):
                        for t in st.targets:
                            if isinstance(t, ast.Name):
                                gdefs.setdefault(t.id, []).append(st.value)
                for c in ast.walk(g.node):
                    if isinstance(c, ast.Call) and isinstance(c.func, ast.Attribute) and isinstance(c.func.value, ast.Name) and c.func.value.id == gs and c.func.attr == m.name:
                        sites += 1
                        a = c.args[pidx] if pidx < len(c.args) else None
                        def is_fs(e):
                            return isinstance(e, ast.Call) and getattr(e.func, "id", None) == "frozenset"
                        if a is None or not (is_fs(a) or (isinstance(a, ast.Name) and a.id in gdefs and all(is_fs(d) for d in gdefs[a.id]))):
                            return False, f"its parameter `{v.id}`, which {g.qualname} passes as `{unparse(a, 30) if a is not None else '?'}` (not a frozenset)"
            if sites:
                return True, ""
        return False, f"the caller-supplied object `{v.id}`"
    return False, f"`{unparse(v, 40)}`"
