"""C04 - Automatic edge IDs are always fresh; adding never overwrites.

Inductive invariant J: the counter ``_edge_uid`` is greater than every integer-like key of ``_edge``.

U-PROV   provenance of the key at every store that inserts a new key into ``_edge`` (AUTO = the value of
         next(self._edge_uid) on that path, USER = anything else), per valuation of the boolean mode names.
U-GUARD  every USER insertion is reachable only through the "absent" branch of a test ``key in self._edge``;
         the "present" branch warns and performs no table write.
U-BUMP   every USER insertion is followed, on every path to a normal exit or to the next loop iteration, by
         update_uid_counter(self, <that key>) - resolving ``x is None`` guards with the fact that a USER key is
         not None, so a truthiness guard (which excludes 0) is reported.
U-OWN    the counter attribute is assigned only in __init__ (count()), __setstate__ (from the state),
         copy() (a copy of the source's counter) and update_uid_counter.
U-COPY   __getstate__/__setstate__ carry the counter; copy() transfers it.
U-FUNC   update_uid_counter consumes one value and restarts the counter at int(idx)+1 when idx is
         integer-*valued* (value-based test) and not below the consumed value, else at the consumed value.
U-ENC    nothing outside the three classes inserts/deletes keys of the edge tables or assigns the counter.
"""
from __future__ import annotations

import ast

from ..cfg import CFG, ENTRY, EXIT, RAISE, own_nodes, own_statements
from ..effects import EATTR, EDGE, UID, Effects
from ..model import CORE_CLASSES, AnalysisError
from ..paths import describe_valuation, edge_filter, valuations
from ..report import Result, mk_finding
from .common import unparse

PROP = "C04"
CORE_MODULES = ("xgi.core.hypergraph", "xgi.core.dihypergraph", "xgi.core.simplicialcomplex")


def is_self_table(node, selfn, table):
    """self._edge  or  self._edge.keys()"""
    if isinstance(node, ast.Call) and isinstance(node.func, ast.Attribute) and node.func.attr == "keys" and not node.args:
        node = node.func.value
    return isinstance(node, ast.Attribute) and node.attr == table and isinstance(node.value, ast.Name) and node.value.id == selfn


def is_next_uid(node, selfn):
    return (
        isinstance(node, ast.Call)
        and isinstance(node.func, ast.Name)
        and node.func.id == "next"
        and node.args
        and isinstance(node.args[0], ast.Attribute)
        and node.args[0].attr == "_edge_uid"
        and isinstance(node.args[0].value, ast.Name)
        and node.args[0].value.id == selfn
    )


def none_flags(fn_node):
    """Locals bound exactly once to `<name> is None` / `<name> is not None`: flag name -> the comparison."""
    from ..cfg import own_statements as _own

    defs = {}
    for st in _own(fn_node):
        if isinstance(st, ast.Assign):
            for t in st.targets:
                if isinstance(t, ast.Name):
                    defs.setdefault(t.id, []).append(st.value)
    out = {}
    for k, vs in defs.items():
        if len(vs) == 1 and isinstance(vs[0], ast.Compare) and len(vs[0].ops) == 1 and isinstance(vs[0].ops[0], (ast.Is, ast.IsNot)) and isinstance(vs[0].left, ast.Name) and isinstance(vs[0].comparators[0], ast.Constant) and vs[0].comparators[0].value is None:
            out[k] = vs[0]
    return out


def tag_of(expr, selfn, default_src, flags=None):
    if is_next_uid(expr, selfn):
        return ("AUTO",)
    if isinstance(expr, ast.IfExp):
        t = expr.test
        if flags:
            if isinstance(t, ast.Name) and t.id in flags:
                t = flags[t.id]
            elif isinstance(t, ast.UnaryOp) and isinstance(t.op, ast.Not) and isinstance(t.operand, ast.Name) and t.operand.id in flags:
                c = flags[t.operand.id]
                t = ast.Compare(left=c.left, ops=[ast.IsNot() if isinstance(c.ops[0], ast.Is) else ast.Is()], comparators=c.comparators)
        pname = None
        auto_when = None  # 'none' : body taken when P is None/falsy
        if isinstance(t, ast.Compare) and len(t.ops) == 1 and isinstance(t.left, ast.Name) and isinstance(t.comparators[0], ast.Constant) and t.comparators[0].value is None:
            pname = t.left.id
            auto_when = "body" if isinstance(t.ops[0], (ast.Is, ast.Eq)) else "orelse"
        elif isinstance(t, ast.UnaryOp) and isinstance(t.op, ast.Not) and isinstance(t.operand, ast.Name):
            pname = t.operand.id
            auto_when = "body"
        elif isinstance(t, ast.Name):
            pname = t.id
            auto_when = "orelse"
        if pname is not None:
            auto_e = expr.body if auto_when == "body" else expr.orelse
            user_e = expr.orelse if auto_when == "body" else expr.body
            if is_next_uid(auto_e, selfn) and isinstance(user_e, ast.Name) and user_e.id == pname:
                return ("COND", pname)
        return ("USER", default_src)
    if isinstance(expr, ast.Name):
        return ("USER", expr.id)
    return ("USER", default_src)


class KeyDefs:
    """Reaching definitions of one variable over a CFG under an edge filter."""

    def __init__(self, cfg: CFG, fn_node, var, selfn):
        self.cfg, self.fn_node, self.var, self.selfn = cfg, fn_node, var, selfn
        self.params = {a.arg for a in fn_node.args.posonlyargs + fn_node.args.args + fn_node.args.kwonlyargs}
        self.flags = none_flags(fn_node)

    def gen(self, st):
        """Tag generated by statement st for self.var, or None."""
        v = self.var
        if isinstance(st, ast.Assign):
            for t in st.targets:
                if isinstance(t, ast.Name) and t.id == v:
                    return tag_of(st.value, self.selfn, v, self.flags)
                if isinstance(t, (ast.Tuple, ast.List)):
                    for i, te in enumerate(t.elts):
                        if isinstance(te, ast.Name) and te.id == v:
                            if isinstance(st.value, (ast.Tuple, ast.List)) and len(st.value.elts) == len(t.elts):
                                return tag_of(st.value.elts[i], self.selfn, v, self.flags)
                            return ("USER", v)
        if isinstance(st, (ast.For, ast.AsyncFor)):
            for n in ast.walk(st.target):
                if isinstance(n, ast.Name) and n.id == v:
                    return ("USER", v)
        if isinstance(st, (ast.AugAssign, ast.AnnAssign)) and isinstance(st.target, ast.Name) and st.target.id == v:
            return ("USER", v)
        return None

    def reaching(self, target, efilter):
        init = frozenset([("USER", self.var)]) if self.var in self.params else frozenset()
        IN = {ENTRY: init}
        work = [ENTRY]
        OUT = {}
        while work:
            n = work.pop()
            inn = IN.get(n, frozenset())
            g = self.gen(n) if isinstance(n, ast.AST) else None
            out = frozenset([g]) if g is not None else inn
            if OUT.get(n) == out and n in OUT:
                continue
            OUT[n] = out
            for m in self.cfg.succ.get(n, ()):
                if not efilter(n, m, self.cfg.label.get((n, m))):
                    continue
                new = IN.get(m, frozenset()) | out
                if new != IN.get(m) or m not in IN:
                    IN[m] = new
                    work.append(m)
        return IN.get(target, frozenset())


def enclosing_loops(fn_node, target):
    out = []

    def rec(stmts, stack):
        for st in stmts:
            if st is target:
                out.extend(stack)
                return True
            subs = []
            for f in ("body", "orelse", "finalbody"):
                s = getattr(st, f, None)
                if isinstance(s, list):
                    subs.append((s, stack + [st] if isinstance(st, (ast.For, ast.While, ast.AsyncFor)) and f == "body" else stack))
            if isinstance(st, ast.Try):
                for h in st.handlers:
                    subs.append((h.body, stack))
            for s, stk in subs:
                if rec(s, stk):
                    return True
        return False

    rec(fn_node.body, [])
    return out


def run(ctx):
    repo = ctx.repo
    res = Result(PROP)
    res.rules = ["U-PROV", "U-GUARD", "U-BUMP", "U-OWN", "U-COPY", "U-FUNC", "U-ENC"]
    res.explanation = (
        "Every statement of the three class bodies that stores a new key into self._edge is located (stores dominated by "
        "a load or store of the same key are replacements); private helpers keyed by a parameter are lifted to their call "
        "sites. For each site and each valuation of the boolean mode names (format1..4, ...) the reaching definitions of "
        "the key give its provenance; USER keys must be guarded by an existing-ID test whose present branch only warns, and "
        "followed on every path to exit / next iteration by update_uid_counter(self, key). The counter's owners, its "
        "transfer in copy/pickle, and the shape of update_uid_counter are checked structurally."
    )
    eng = Effects(repo)
    n_sites, n_replace = site_checks(ctx, repo, eng, res, CORE_CLASSES, PROP)
    res.floor("insertion sites of new edge keys (incl. lifted helper calls)", n_sites, 11 if not ctx.only else 0)
    res.counters["replacement stores (existing key)"] = n_replace
    if ctx.only:
        return res

    check_owners(repo, res)
    check_update_uid_counter(repo, res)
    check_enc(repo, eng, res)
    return res


def site_checks(ctx, repo, eng, res, classes, prop):
    """U-PROV / U-GUARD / U-BUMP for every insertion site of the given classes' own bodies."""
    methods = []
    for cname in classes:
        ci = repo.get_class(cname)
        for m in ci.methods.values():
            methods.append(m)

    # ---- helpers that insert under a parameter key (lifted to call sites)
    lifted = {}  # method name -> (FunctionInfo, param index (excluding self), param name)
    sites = []  # (fn, stmt, key_name, how)
    for fn in methods:
        selfn = fn.params[0] if fn.params else "self"
        cfg = None
        for st in own_statements(fn.node):
            key = None
            if isinstance(st, ast.Assign):
                for t in st.targets:
                    if isinstance(t, ast.Subscript) and is_self_table(t.value, selfn, "_edge") and not isinstance(t.value, ast.Call):
                        key = t.slice
            if key is None:
                for n in own_nodes(st):
                    if isinstance(n, ast.Call) and isinstance(n.func, ast.Attribute) and n.func.attr in ("setdefault", "update", "__setitem__") and is_self_table(n.func.value, selfn, "_edge"):
                        key = n.args[0] if n.args and n.func.attr != "update" else ast.Name(id="<update>", ctx=ast.Load())
            if key is None:
                continue
            if not isinstance(key, ast.Name):
                raise AnalysisError(f"{fn.fq}:{st.lineno}: edge table stored under a key expression `{unparse(key)}` the extractor does not recognise")
            sites.append((fn, st, key.id, "store"))
    # replacement classification + helper lifting
    real_sites = []
    n_replace = 0
    for fn, st, key, how in sites:
        selfn = fn.params[0]
        cfg = CFG(fn.node)

        def establishes(n, key=key, selfn=selfn, st=st):
            if n is st or not isinstance(n, ast.AST):
                return False
            for sub in own_nodes(n):
                if isinstance(sub, ast.Subscript) and is_self_table(sub.value, selfn, "_edge") and isinstance(sub.slice, ast.Name) and sub.slice.id == key:
                    return True
            return False

        if cfg.dominated_by(st, establishes):
            n_replace += 1
            res.inst("U-PROV", f"{fn.qualname}:{unparse(st, 60)} -> replaces the value of an existing key", True)
            continue
        params = fn.params[1:]
        if fn.name.startswith("_") and not fn.name.startswith("__") and key in params:
            # does the helper itself rebind the key before the store?
            kd = KeyDefs(cfg, fn.node, key, selfn)
            tags = kd.reaching(st, lambda a, b, l: True)
            if tags == frozenset([("USER", key)]):
                lifted[fn.name] = (fn, params.index(key), key)
                continue
        real_sites.append((fn, st, key, "store"))
    # call sites of lifted helpers
    for _ in range(2):
        for fn in methods:
            selfn = fn.params[0] if fn.params else "self"
            for st in own_statements(fn.node):
                for n in own_nodes(st):
                    if isinstance(n, ast.Call) and isinstance(n.func, ast.Attribute) and isinstance(n.func.value, ast.Name) and n.func.value.id == selfn and n.func.attr in lifted:
                        h, pidx, pname = lifted[n.func.attr]
                        arg = None
                        if pidx < len(n.args):
                            arg = n.args[pidx]
                        for kw in n.keywords:
                            if kw.arg == pname:
                                arg = kw.value
                        if arg is None:
                            continue  # default (None) -> IDDict refuses it
                        if not isinstance(arg, ast.Name):
                            raise AnalysisError(f"{fn.fq}:{st.lineno}: helper {h.qualname} called with key expression `{unparse(arg)}` the extractor does not recognise")
                        entry = (fn, st, arg.id, f"call {h.qualname}")
                        if all(not (e[0] is fn and e[1] is st) for e in real_sites):
                            real_sites.append(entry)

    n_sites = 0
    for fn, st, key, how in real_sites:
        if ctx.only and ctx.only != fn.qualname:
            continue
        n_sites += 1
        check_site(repo, eng, res, fn, st, key, how, prop)
    return n_sites, n_replace


_DRAWERS = {}


def auto_drawers(repo, eng, fn):
    """Names of the methods of fn's class (MRO) that draw an automatic edge ID, directly or through calls."""
    if fn.cls is None:
        return set()
    key = (repo.digest(), fn.cls.name)
    if key not in _DRAWERS:
        out = set()
        for mname, m in repo.all_methods(fn.cls).items():
            try:
                summ = eng.summarize(m, fn.cls.name if fn.cls.name in ("Hypergraph", "DiHypergraph", "SimplicialComplex") else None, (), ())
            except Exception:  # noqa: BLE001
                continue
            if any(w.region == "UID" and w.kind == "next" and w.origin == ("p", 0) for w in summ.writes):
                out.add(mname)
        _DRAWERS[key] = out
    return _DRAWERS[key]


def check_site(repo, eng, res, fn, st, key, how, prop=PROP):
    selfn = fn.params[0]
    cfg = CFG(fn.node)
    kd = KeyDefs(cfg, fn.node, key, selfn)
    loops = enclosing_loops(fn.node, st)
    targets = {EXIT} | set(loops)
    any_case = False
    reported = set()
    for val in valuations(fn.node):
        base_filter = edge_filter(val, {})
        if st not in cfg.reachable(ENTRY, edge_ok=base_filter):
            continue
        tags = kd.reaching(st, base_filter)
        cases = []
        for t in tags:
            if t[0] == "AUTO":
                cases.append(("AUTO", None, {}))
            elif t[0] == "USER":
                cases.append(("USER", t[1], {t[1]: False, key: False}))
            elif t[0] == "COND":
                cases.append(("AUTO", None, {t[1]: True}))
                cases.append(("USER", t[1], {t[1]: False, key: False}))
        if not tags:
            continue
        for kind, src, nf in cases:
            any_case = True
            desc = f"{fn.qualname}:{st.lineno} key `{key}` [{how}] under {describe_valuation(val, nf)}"
            if kind == "AUTO":
                res.inst("U-PROV", desc + " -> AUTO", True)
                continue
            # flags bound once to `<id> is None` / `<id> is not None` take the value this case gives them
            val_case = dict(val)
            for fst in own_statements(fn.node):
                if isinstance(fst, ast.Assign) and len(fst.targets) == 1 and isinstance(fst.targets[0], ast.Name) and isinstance(fst.value, ast.Compare) and len(fst.value.ops) == 1 and isinstance(fst.value.left, ast.Name) and fst.value.left.id in nf and isinstance(fst.value.comparators[0], ast.Constant) and fst.value.comparators[0].value is None:
                    fname = fst.targets[0].id
                    if sum(1 for x in own_statements(fn.node) if isinstance(x, ast.Assign) and any(isinstance(t, ast.Name) and t.id == fname for t in x.targets)) != 1:
                        continue
                    is_none = nf[fst.value.left.id]
                    if isinstance(fst.value.ops[0], ast.Is):
                        val_case[fname] = is_none
                    elif isinstance(fst.value.ops[0], ast.IsNot):
                        val_case[fname] = not is_none
            ef = edge_filter(val_case, nf)
            if st not in cfg.reachable(ENTRY, edge_ok=ef):
                continue
            res.inst("U-PROV", desc + f" -> USER({src})", True)
            names = {key, src}
            # ---------------- U-GUARD
            guard_ok, why, gnode = find_guard(repo, eng, cfg, fn, st, names, selfn, ef)
            res.inst("U-GUARD", desc, guard_ok)
            if not guard_ok and ("U-GUARD", st.lineno) not in reported:
                reported.add(("U-GUARD", st.lineno))
                res.add(mk_finding(prop, "U-GUARD", fn, gnode or st, f"{fn.qualname}: caller-supplied edge ID `{src}` is inserted ({how}) {why} [{describe_valuation(val, nf)}]", role=key))
            # ---------------- U-BUMP
            def is_bump(n):
                if not isinstance(n, ast.AST):
                    return False
                for c in own_nodes(n):
                    if isinstance(c, ast.Call) and isinstance(c.func, ast.Name) and c.func.id == "update_uid_counter" and len(c.args) >= 2:
                        a0, a1 = c.args[0], c.args[1]
                        if isinstance(a0, ast.Name) and a0.id == selfn and isinstance(a1, ast.Name) and a1.id in names:
                            return True
                return False

            reach = cfg.reachable(st, avoid=is_bump, edge_ok=ef)
            missed = [t for t in targets if t in reach and not (isinstance(t, ast.AST) and is_bump(t))]
            ok = not missed
            res.inst("U-BUMP", desc, ok)
            # no automatic ID is drawn while the counter has not yet passed the caller's ID: the drawn ID could be that
            # very ID, and the entry just stored would be overwritten by the new one
            drawers = auto_drawers(repo, eng, fn)
            early = []
            for n in reach:
                if not isinstance(n, ast.AST) or is_bump(n) or n is st:
                    continue
                for c in own_nodes(n):
                    if isinstance(c, ast.Call) and getattr(c.func, "id", None) == "next" and c.args and isinstance(c.args[0], ast.Attribute) and c.args[0].attr == "_edge_uid":
                        early.append((n, "next(self._edge_uid)"))
                    elif isinstance(c, ast.Call) and isinstance(c.func, ast.Attribute) and isinstance(c.func.value, ast.Name) and c.func.value.id == selfn and c.func.attr in drawers:
                        early.append((n, f"{selfn}.{c.func.attr}()"))
            # (a draw in a later iteration is only reachable here if this iteration's bump is missing - reported above)
            if not ok:
                early = []
            res.inst("U-BUMP", desc + " - no automatic ID drawn before the counter has passed the inserted ID", not early)
            if early and ("U-BUMP-ORDER", st.lineno) not in reported:
                reported.add(("U-BUMP-ORDER", st.lineno))
                n0, what = sorted(early, key=lambda e: getattr(e[0], "lineno", 0))[0]
                res.add(
                    mk_finding(
                        prop, "U-BUMP", fn, n0,
                        f"{fn.qualname}: between inserting caller-supplied edge ID `{src}` ({how}, line {st.lineno}) and update_uid_counter({selfn}, {src}) an automatic ID is drawn by `{what}` (line {getattr(n0, 'lineno', 0)}); while the counter has not passed `{src}` the drawn ID can be `{src}` itself, and the new entry replaces the one just inserted [{describe_valuation(val, nf)}]",
                        role=key + ":order",
                    )
                )
            if not ok and ("U-BUMP", st.lineno) not in reported:
                reported.add(("U-BUMP", st.lineno))
                where = "the end of the call" if EXIT in missed else f"the next iteration of the loop at line {missed[0].lineno}"
                res.add(
                    mk_finding(
                        prop, "U-BUMP", fn, st,
                        f"{fn.qualname}: after inserting caller-supplied edge ID `{src}` ({how}) a path reaches {where} without update_uid_counter({selfn}, {src}) [{describe_valuation(val, nf)}]; a later automatic ID can collide with it",
                        role=key,
                    )
                )
    if not any_case:
        res.inst("U-PROV", f"{fn.qualname}:{st.lineno} key `{key}`: no reaching definition (unreachable under every valuation)", True)


def find_guard(repo, eng, cfg, fn, st, names, selfn, ef):
    """An If node testing `<name> in self._edge[.keys()]` such that st is reachable only through its absent branch."""
    cands = []
    for n in cfg.nodes:
        if isinstance(n, ast.If):
            for sub in ast.walk(n.test):
                if isinstance(sub, ast.Compare) and len(sub.ops) == 1 and isinstance(sub.ops[0], (ast.In, ast.NotIn)) and isinstance(sub.left, ast.Name) and sub.left.id in names and is_self_table(sub.comparators[0], selfn, "_edge"):
                    # polarity: the compare must be the whole test or a positive conjunct/disjunct we understand
                    if sub is n.test:
                        cands.append((n, "F" if isinstance(sub.ops[0], ast.In) else "T"))
    for g, absent in cands:
        def ok(a, b, lab, g=g, absent=absent):
            if not ef(a, b, lab):
                return False
            if a is g and lab == absent:
                return False
            return True

        if st in cfg.reachable(ENTRY, edge_ok=ok):
            continue  # st reachable without passing the absent branch
        present = g.body if absent == "F" else g.orelse
        # the present branch must not write any table
        writes = branch_writes(repo, eng, fn, present, selfn)
        if writes:
            return False, f"but the branch taken when the ID already exists modifies the network ({writes[0]})", g
        if absent == "F":
            warned = any(isinstance(c, ast.Call) and isinstance(c.func, (ast.Name, ast.Attribute)) and (getattr(c.func, "id", None) == "warn" or getattr(c.func, "attr", None) == "warn") for s in present for c in ast.walk(s))
            if not warned:
                return False, "and the branch taken when the ID already exists does not warn", g
        return True, "", g
    return False, "without a dominating test that the ID is not already present", None


def branch_writes(repo, eng, fn, stmts, selfn):
    out = []
    for s in stmts:
        for n in ast.walk(s):
            if isinstance(n, (ast.Subscript, ast.Attribute)) and isinstance(getattr(n, "ctx", None), (ast.Store, ast.Del)):
                base = n.value
                while isinstance(base, (ast.Subscript, ast.Attribute)):
                    if isinstance(base, ast.Attribute) and base.attr in ("_node", "_edge", "_node_attr", "_edge_attr", "_net_attr", "_edge_uid"):
                        out.append(unparse(n))
                    base = base.value
                if isinstance(n, ast.Attribute) and n.attr in ("_node", "_edge", "_node_attr", "_edge_attr", "_net_attr", "_edge_uid"):
                    out.append(unparse(n))
            if isinstance(n, ast.Call) and isinstance(n.func, ast.Attribute):
                recv = n.func.value
                if isinstance(recv, ast.Name) and recv.id == selfn:
                    m = repo.find_method(fn.cls, n.func.attr) if fn.cls else None
                    if m is not None:
                        summ = eng.summarize(m, fn.cls.name, (), ())
                        if any(w.origin == ("p", 0) and w.region != "SHADOW" for w in summ.writes):
                            out.append(unparse(n))
                else:
                    base = recv
                    while isinstance(base, (ast.Subscript, ast.Attribute, ast.Call)):
                        if isinstance(base, ast.Attribute) and base.attr in ("_node", "_edge", "_node_attr", "_edge_attr", "_net_attr") and n.func.attr in ("add", "remove", "discard", "update", "clear", "pop", "popitem", "setdefault"):
                            out.append(unparse(n))
                            break
                        base = base.func if isinstance(base, ast.Call) else base.value
            if isinstance(n, ast.Call) and isinstance(n.func, ast.Name) and n.func.id == "next" and n.args and isinstance(n.args[0], ast.Attribute) and n.args[0].attr == "_edge_uid":
                out.append(unparse(n))
    return out


# ---------------------------------------------------------------------- owners
def check_owners(repo, res, prop=PROP):
    n = 0
    for mi in repo.modules.values():
        for fn in list(mi.functions.values()) + [m for c in mi.classes.values() for m in c.methods.values()]:
            for st in own_statements(fn.node):
                tgts = []
                if isinstance(st, ast.Assign):
                    tgts = st.targets
                elif isinstance(st, (ast.AugAssign, ast.AnnAssign)):
                    tgts = [st.target]
                for t in tgts:
                    for sub in ast.walk(t):
                        if isinstance(sub, ast.Attribute) and sub.attr == "_edge_uid" and isinstance(sub.ctx, ast.Store):
                            n += 1
                            ok, why = owner_ok(repo, fn, st, sub)
                            res.inst("U-OWN", f"{fn.fq}:{st.lineno} `{unparse(st, 70)}`", ok)
                            if not ok:
                                res.add(mk_finding(prop, "U-OWN", fn, st, f"{fn.qualname} assigns the automatic-ID counter: {why}", role="_edge_uid"))
                for sub in own_nodes(st):
                    if isinstance(sub, ast.Call) and isinstance(sub.func, ast.Name) and sub.func.id == "setattr" and len(sub.args) >= 2 and isinstance(sub.args[1], ast.Constant) and sub.args[1].value == "_edge_uid":
                        n += 1
                        res.inst("U-OWN", f"{fn.fq}:{st.lineno} setattr(_edge_uid)", False)
                        res.add(mk_finding(prop, "U-OWN", fn, st, f"{fn.qualname} assigns the automatic-ID counter through setattr", role="_edge_uid"))
    res.floor("assignments of the counter attribute", n, 9)
    # U-COPY: pickling carries the counter
    for cname in CORE_CLASSES:
        ci = repo.get_class(cname)
        gs = repo.find_method(ci, "__getstate__")
        ss = repo.find_method(ci, "__setstate__")
        if gs is None or ss is None:
            raise AnalysisError(f"{cname}.__getstate__/__setstate__ not found (anchor vanished)")
        selfn = gs.params[0]
        carried = False
        for r in ast.walk(gs.node):
            if isinstance(r, ast.Return) and isinstance(r.value, ast.Dict):
                for k, v in zip(r.value.keys, r.value.values):
                    if isinstance(k, ast.Constant) and k.value == "_edge_uid" and isinstance(v, ast.Attribute) and v.attr == "_edge_uid":
                        carried = True
        res.inst("U-COPY", f"{gs.qualname} (as {cname}) returns the counter under '_edge_uid'", carried)
        if not carried:
            res.add(mk_finding(prop, "U-COPY", gs, gs.node, f"{gs.qualname} does not put the automatic-ID counter into the pickled state", role=cname))
        restored = any(
            isinstance(st, ast.Assign)
            and any(isinstance(t, ast.Attribute) and t.attr == "_edge_uid" for t in st.targets)
            and isinstance(st.value, ast.Subscript)
            and isinstance(st.value.slice, ast.Constant)
            and st.value.slice.value == "_edge_uid"
            for st in own_statements(ss.node)
        )
        res.inst("U-COPY", f"{ss.qualname} (as {cname}) restores the counter from state['_edge_uid']", restored)
        if not restored:
            res.add(mk_finding(prop, "U-COPY", ss, ss.node, f"{ss.qualname} does not restore the automatic-ID counter from the pickled state", role=cname))
        cp = repo.find_method(ci, "copy")
        has = any(isinstance(st, ast.Assign) and any(isinstance(t, ast.Attribute) and t.attr == "_edge_uid" for t in st.targets) for st in own_statements(cp.node))
        res.inst("U-COPY", f"{cp.qualname} (as {cname}) transfers the counter", has)
        if not has:
            res.add(mk_finding(prop, "U-COPY", cp, cp.node, f"{cp.qualname} does not transfer the automatic-ID counter to the copy (the copy would restart at 0 unless every insertion bumps it)", role=cname))


def owner_ok(repo, fn, st, tgt):
    val = getattr(st, "value", None)
    in_core = fn.cls is not None and fn.cls.name in CORE_CLASSES
    if in_core and fn.name == "__init__":
        if isinstance(val, ast.Call) and isinstance(val.func, ast.Name) and val.func.id == "count" and not val.args and not val.keywords:
            return True, ""
        return False, "in __init__ the counter must start as count()"
    if in_core and fn.name == "__setstate__":
        if isinstance(val, ast.Subscript) and isinstance(val.slice, ast.Constant) and val.slice.value == "_edge_uid":
            return True, ""
        return False, "in __setstate__ the counter must come from state['_edge_uid']"
    if in_core and fn.name == "copy":
        selfn = fn.params[0]
        for n in ast.walk(val) if val is not None else []:
            if isinstance(n, ast.Call) and isinstance(n.func, ast.Name) and n.func.id in ("copy", "deepcopy") and n.args and isinstance(n.args[0], ast.Attribute) and n.args[0].attr == "_edge_uid" and isinstance(n.args[0].value, ast.Name) and n.args[0].value.id == selfn:
                return True, ""
        return False, f"in copy() the new counter must be a copy of the source's counter (found `{unparse(val)}`): a counter re-derived from the keys is not known to exceed every integer-valued ID"
    if fn.cls is None and fn.name == "update_uid_counter":
        return True, ""
    return False, f"only __init__, __setstate__, copy() of the core classes and update_uid_counter may assign it (found `{unparse(st, 80)}`)"


# ---------------------------------------------------------------------- update_uid_counter
def check_update_uid_counter(repo, res, prop=PROP):
    mi = repo.modules.get("xgi.utils.utilities")
    if mi is None or "update_uid_counter" not in mi.functions:
        raise AnalysisError("xgi.utils.utilities.update_uid_counter not found (anchor vanished)")
    fn = mi.functions["update_uid_counter"]
    if len(fn.params) < 2:
        raise AnalysisError("update_uid_counter has fewer than two parameters")
    H, idx = fn.params[0], fn.params[1]
    stmts = own_statements(fn.node)
    consumed = None
    for st in stmts:
        if isinstance(st, ast.Assign) and len(st.targets) == 1 and isinstance(st.targets[0], ast.Name) and is_next_uid(st.value, H):
            consumed = st.targets[0].id
    final = None
    for st in stmts:
        if isinstance(st, ast.Assign) and any(isinstance(t, ast.Attribute) and t.attr == "_edge_uid" for t in st.targets):
            final = st
    if consumed is None or final is None:
        raise AnalysisError("update_uid_counter: cannot find `uid = next(H._edge_uid)` / `H._edge_uid = count(...)` (extractor does not recognise the code)")
    v = final.value
    startname = None
    if isinstance(v, ast.Call) and isinstance(v.func, ast.Name) and v.func.id == "count":
        a = v.args[0] if v.args else next((k.value for k in v.keywords if k.arg == "start"), None)
        if isinstance(a, ast.Name):
            startname = a.id
    if startname is None:
        raise AnalysisError("update_uid_counter: new counter is not count(start=<name>) (extractor does not recognise the code)")
    # the If that chooses start
    chooser = None
    for st in stmts:
        if isinstance(st, ast.If):
            b = [s for s in st.body if isinstance(s, ast.Assign) and any(isinstance(t, ast.Name) and t.id == startname for t in s.targets)]
            o = [s for s in st.orelse if isinstance(s, ast.Assign) and any(isinstance(t, ast.Name) and t.id == startname for t in s.targets)]
            if b and o:
                chooser = (st, b[-1], o[-1])
    if chooser is None:
        # default-then-override form:  start = uid ; if <cond>: start = int(idx) + 1
        for st in stmts:
            if isinstance(st, ast.If) and not st.orelse:
                b = [s for s in st.body if isinstance(s, ast.Assign) and any(isinstance(t, ast.Name) and t.id == startname for t in s.targets)]
                prior = [s for s in stmts if isinstance(s, ast.Assign) and any(isinstance(t, ast.Name) and t.id == startname for t in s.targets) and s.lineno < st.lineno and s not in st.body]
                if b and prior:
                    chooser = (st, b[-1], prior[-1])
    if chooser is None:
        raise AnalysisError("update_uid_counter: no if/else assigning the new start in both branches (extractor does not recognise the code)")
    ifn, bump, keep = chooser

    def is_bump_expr(e):
        # int(idx) + 1  or  idx + 1
        if isinstance(e, ast.BinOp) and isinstance(e.op, ast.Add) and isinstance(e.right, ast.Constant) and e.right.value == 1:
            l = e.left
            if isinstance(l, ast.Call) and isinstance(l.func, ast.Name) and l.func.id == "int" and l.args and isinstance(l.args[0], ast.Name) and l.args[0].id == idx:
                return True
            if isinstance(l, ast.Name) and l.id == idx:
                return True
        return False

    def is_keep_expr(e):
        return isinstance(e, ast.Name) and e.id == consumed

    ok_shape = (is_bump_expr(bump.value) and is_keep_expr(keep.value)) or (is_bump_expr(keep.value) and is_keep_expr(bump.value) and False)
    res.inst("U-FUNC", "update_uid_counter: start = int(idx)+1 in the bump branch, the consumed value otherwise", ok_shape)
    if not ok_shape:
        res.add(mk_finding(prop, "U-FUNC", fn, ifn, f"update_uid_counter: the new start is `{unparse(bump.value)}` / `{unparse(keep.value)}`; it must be int({idx})+1 when the ID is integer-valued and not below the consumed value, and the consumed value `{consumed}` otherwise (a value must not be lost or skipped below an existing ID)", role="start"))
    # condition analysis
    conj = ifn.test.values if isinstance(ifn.test, ast.BoolOp) and isinstance(ifn.test.op, ast.And) else [ifn.test]
    has_cmp = False
    value_based = False
    type_based = None
    for c in conj:
        if isinstance(c, ast.Compare) and len(c.ops) == 1:
            l, r = c.left, c.comparators[0]
            if isinstance(l, ast.Name) and l.id == consumed and isinstance(r, ast.Name) and r.id == idx and isinstance(c.ops[0], ast.LtE):
                has_cmp = True
            if isinstance(l, ast.Name) and l.id == idx and isinstance(r, ast.Name) and r.id == consumed and isinstance(c.ops[0], ast.GtE):
                has_cmp = True
            # idx == int(idx)
            if isinstance(c.ops[0], ast.Eq):
                for x, y in ((l, r), (r, l)):
                    if isinstance(x, ast.Name) and x.id == idx and isinstance(y, ast.Call) and isinstance(y.func, ast.Name) and y.func.id == "int":
                        value_based = True
        if isinstance(c, ast.Call) and isinstance(c.func, ast.Attribute) and c.func.attr == "is_integer":
            value_based = True
        if isinstance(c, ast.Call) and isinstance(c.func, ast.Name) and c.func.id == "isinstance" and len(c.args) == 2 and isinstance(c.args[0], ast.Name) and c.args[0].id == idx:
            type_based = unparse(c)
    res.inst("U-FUNC", "update_uid_counter: bump condition compares the consumed value with idx (uid <= idx)", has_cmp)
    if not has_cmp:
        res.add(mk_finding(prop, "U-FUNC", fn, ifn, f"update_uid_counter: the bump condition `{unparse(ifn.test)}` does not contain `{consumed} <= {idx}`", role="cmp"))
    ok_val = value_based and type_based is None
    res.inst("U-FUNC", "update_uid_counter: integer-likeness of idx is tested by value (float(idx).is_integer()), not by type", ok_val)
    if not ok_val:
        why = f"uses the type test `{type_based}`" if type_based else "has no value-based integer test"
        res.add(mk_finding(prop, "U-FUNC", fn, ifn, f"update_uid_counter: the bump condition {why}; integer-valued IDs of other numeric types (2.0, numpy floats, Fraction) compare and hash equal to the automatic int IDs, so the counter must advance past them too", role="intlike"))


# ---------------------------------------------------------------------- encapsulation
def check_enc(repo, eng, res):
    """No function outside the three classes inserts/deletes keys of the edge tables or touches the counter
    except by calling class methods (update_uid_counter is the one documented helper)."""
    n = 0
    for fn in repo.all_functions():
        in_core = fn.cls is not None and fn.cls.name in CORE_CLASSES
        if in_core:
            continue
        if fn.cls is not None:
            eng.summarize(fn, fn.cls.name if fn.cls.name in ("NodeView", "EdgeView", "DiNodeView", "DiEdgeView") else None, (), ())
        else:
            eng.summarize(fn, None, (), ())
        for w in eng.direct_writes.get(fn.fq, ()):
            if w.region in (EDGE, EATTR) and w.kind in ("key", "rebind"):
                n += 1
                res.inst("U-ENC", f"{fn.fq}:{w.line}", False)
                res.add(mk_finding(PROP, "U-ENC", fn, fn.node, f"{fn.qualname} writes the edge table directly (`{w.text}`), bypassing the insertion sites that keep the ID counter ahead of the keys", role=w.region))
            if w.region == UID and fn.fq != "xgi.utils.utilities:update_uid_counter":
                n += 1
                res.inst("U-ENC", f"{fn.fq}:{w.line}", False)
                f = mk_finding(PROP, "U-ENC", fn, fn.node, f"{fn.qualname} touches the automatic-ID counter directly (`{w.text}`)", role=UID)
                res.add(f)
    res.inst("U-ENC", f"{len(repo.all_functions())} functions scanned for direct edge-table/counter writes outside the core classes", True)
