"""C01 - Undirected incidence integrity under every edit history (inductive step, decided statically).

R-ENC   only methods of the three core classes write the four tables.
R-INC   on every normal exit of every writer method of Hypergraph the gains/losses of the edge-side relation
        equal those of the node-side relation (relational-delta formulas compared by truth table under the
        invariant on the pre-state).
R-ATTR  key insertions/deletions of _edge equal those of _edge_attr, and of _node those of _node_attr.
R-EXC   the same comparisons restricted to the writes that precede every raise point.
R-ONCE  a caller-supplied iterable feeds the two sides from one consumption only.
R-BOTH  coarse rule for the one named exception (random_edge_shuffle).
"""
from ..report import Result
from .incidence_rules import check_enc, check_fresh, check_share, run_class

PROP = "C01"


def run(ctx):
    res = Result(PROP)
    res.rules = ["R-ENC", "R-EXIT", "R-INC", "R-ATTR", "R-EXC", "R-ONCE", "R-SHARE", "R-BOTH", "U-OWN", "U-COPY", "U-FUNC", "U-PROV", "U-GUARD", "U-BUMP"]
    res.explanation = (
        "Induction over edit histories done on the code: R-ENC shows every history is a sequence of core-method "
        "executions; for each writer method of Hypergraph (per valuation of its boolean mode parameters) a structured "
        "walk turns every table write into a relational delta formula; preservation of the invariant is the "
        "truth-table equivalence of the edge-side and node-side deltas (and of table/attribute-table key deltas) at "
        "every normal exit and before every raise point. Nothing is executed."
    )
    eng = run_class(ctx, res, PROP, "Hypergraph", False, 13, skip=("__init__", "__setstate__"))
    if not ctx.only:
        check_enc(ctx, res, PROP, eng)
        check_share(ctx, res, PROP, "Hypergraph")
        check_fresh(ctx, res, PROP, ("Hypergraph",))
    return res
