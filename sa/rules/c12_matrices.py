"""C12 - Matrix representations encode the network exactly (NARROW: addressing, index maps, degenerate branches).

K1/K2/K5  over xgi/linalg: rows and columns are addressed through index maps, never through the labels themselves.
M-MAP     every function with an ``index`` option returns, next to the matrix, maps position -> label of the right kind
          (rows: nodes; incidence/intersection columns: edges) that are inversions of the very label -> position map that
          placed the entries, a pass-through of a callee's maps, or an enumeration of the unfiltered view.
M-EMPTY   where a function branches on the degenerate (0, 0) incidence shape, its result is assigned on every path through
          that branch (using the callee fact, read from incidence_matrix, that both maps are empty there).
M-DTYPE   where a builder branches on ``sparse``, both branches construct the matrix with the same element type (an int8 sparse
          incidence next to an int dense one makes every product of the sparse form wrap at 128).
M-ZERO    a stored weight is never replaced by a default through truthiness (`x.get("weight") or 1` turns weight 0 into 1).
M-ALIGN   sequences consumed pairwise (zip(Ls, Ks, weights)) were filtered / reordered identically on the way.
M-NORM    the per-order normaliser of multiorder_laplacian (mean order-d degree) does not depend on rescale_per_node.
Numerical equality with the textbook definitions is NOT decided.
"""
from __future__ import annotations

import ast

from ..cfg import CFG, EXIT, own_nodes, own_statements
from ..model import AnalysisError
from ..paths import edge_filter
from ..report import Result, mk_finding
from .common import unparse
from .kind_rules import fmt, functions_of, run_kinds

PROP = "C12"
ROW_KIND = {
    "incidence_matrix": ("node", "edge"), "adjacency_matrix": ("node",), "degree_matrix": ("node",), "clique_motif_matrix": ("node",),
    "adjacency_tensor": ("node",), "laplacian": ("node",), "multiorder_laplacian": ("node",), "normalized_hypergraph_laplacian": ("node",),
    "intersection_profile": ("edge",), "boundary_matrix": (None, None), "hodge_laplacian": (None,),
}


def run(ctx):
    repo = ctx.repo
    res = Result(PROP)
    res.rules = ["K1", "K2", "K5", "M-MAP", "M-EMPTY", "M-DTYPE", "M-ZERO", "M-ALIGN", "M-FLOW", "M-NORM", "M-IDEM", "M-THRESH", "M-FANCY", "M-SIB"]
    res.explanation = (
        "Narrow claim: kind inference over the matrix builders plus provenance of the returned index maps, definite "
        "assignment in the degenerate-shape branches and a dependency check on the multi-order normaliser. The numerical "
        "clauses of the property (symmetry, row sums, PSD, sparse = dense) are not decided."
    )
    fns = functions_of(repo, ["xgi.linalg"])
    eng = run_kinds(ctx, res, PROP, fns, 20, 6)
    n = 0
    for fn in fns:
        if ctx.only and ctx.only != fn.qualname:
            continue
        if "index" in fn.all_params and fn.cls is None:
            n += 1
            check_map(repo, eng, res, fn)
            check_empty(repo, res, fn)
    if not ctx.only:
        res.floor("functions with an index option", n, 11)
        check_norm(repo, res)
        check_dtype(repo, res, fns)
        from .common import pattern_lint

        pattern_lint(res, PROP, "M-ZERO", fns, falsy_default_sites,
                     "def _w(H, e):\n    return H.edges[e].get('weight') or 1\n",
                     lambda n: f"`{unparse(n, 60)}` replaces a stored value by a default whenever it is falsy; an edge weight of 0 (an admissible non-negative weight) is silently counted as the default, so the weighted matrices no longer equal their definitions",
                     "`<lookup> or <default>` on stored weights/attributes")
        # M-IDEM: the adjacency tensor is an indicator (1 where the nodes form a hyperedge): repeated edges must not add up
        at = [f for f in fns if f.name == "adjacency_tensor"]
        if not at:
            raise AnalysisError("adjacency_tensor not found (anchor vanished)")
        pattern_lint(res, PROP, "M-IDEM", at, accumulating_population,
                     "def adjacency_tensor(H, order):\n    B = np.zeros((3,) * (order + 1))\n    for idx in H:\n        B[idx] += 1\n    return B\n",
                     lambda n: f"`{unparse(n, 60)}` populates the tensor by accumulation; a hyperedge that occurs k times (multi-edges are admissible) contributes k instead of 1, so the entries are no longer the indicator of 'these nodes form a hyperedge' (nor 1/d! of it when normalised)",
                     "accumulating population of the indicator tensor")
        check_siblings_linear(res, fns)
        # M-THRESH: the entries compared with the threshold s are the counts themselves
        th = [f for f in fns if "s" in f.all_params]
        if not th:
            raise AnalysisError("no matrix builder with a threshold parameter `s` found (anchor vanished)")
        pattern_lint(res, PROP, "M-THRESH", th, collapse_before_threshold,
                     "def adjacency_matrix(H, s=1, weighted=False):\n    A = count(H)\n    if not weighted:\n        np.minimum(A, 1, out=A)\n    A[A < s] = 0\n    return A\n",
                     lambda n: f"`{unparse(n, 60)}` collapses the co-membership counts to 0/1 on a path on which they have not yet been compared with `s`; for s >= 2 the later comparison sees only 0 and 1 and removes every entry, so the matrix no longer marks the pairs that share at least s edges",
                     "collapse of the counts before the comparison with the threshold")
        pattern_lint(res, PROP, "M-FANCY", fns, buffered_fancy_updates,
                     "def adjacency(links, n):\n    i, j = np.array(links).T\n    A = np.zeros((n, n), dtype=int)\n    A[i, j] += 1\n    return A\n",
                     lambda nd: f"`{unparse(nd, 40)}` updates a matrix in place through index arrays; NumPy buffers such an update and applies it ONCE per distinct index tuple, so repeated pairs (parallel edges, a pair of nodes sharing several edges) are counted once instead of added up (np.add.at / a sparse product accumulate)",
                     "in-place updates through index arrays")
        from .common import check_dead_params, misaligned_zips

        nd = check_dead_params(res, PROP, "M-FLOW", fns, "the matrix or the index maps returned")
        res.floor("matrix builders checked for dead parameters", nd, 10)

        nz = 0
        for fn in fns:
            for z, sigs in misaligned_zips(fn.node):
                vals = set(sigs.values())
                # the mask of a filtering zip is allowed to differ from the sequence it filters only if the zip feeds a comprehension condition; data pairings must agree
                nz += 1
                ok = len(vals) == 1
                res.inst("M-ALIGN", f"{fn.fq}:{z.lineno} zip({', '.join(sigs)}) pairs sequences with the same filtering history", ok)
                if not ok:
                    detail = "; ".join(f"{k}: {sorted(v) or 'as given'}" for k, v in sigs.items())
                    res.add(mk_finding(PROP, "M-ALIGN", fn, z, f"{fn.qualname}: `{unparse(z, 50)}` pairs sequences that were filtered or reordered differently ({detail}); element i of one meets element j of another - a weight is applied to the wrong order", role="zip"))
        res.floor("pairwise-consumed sequences in linalg", nz, 1)
    return res


def buffered_fancy_updates(fn_node):
    """`A[i, j] += v` / `A[idx] -= v` where an index is an array or list (bound from np.array / asarray / where /
    nonzero / .T / a list or comprehension / a tuple-unpacking of one of those)."""
    arrays = set()
    for st in ast.walk(fn_node):
        if isinstance(st, ast.Assign):
            v = st.value
            src = v
            while isinstance(src, ast.Attribute) and src.attr == "T":
                src = src.value
            is_arr = isinstance(src, (ast.List, ast.ListComp)) or (isinstance(src, ast.Call) and getattr(src.func, "attr", getattr(src.func, "id", None)) in ("array", "asarray", "where", "nonzero", "argwhere", "flatnonzero", "fromiter", "concatenate", "repeat", "tile", "arange") )
            if not is_arr:
                continue
            for t in st.targets:
                for x in ast.walk(t):
                    if isinstance(x, ast.Name):
                        arrays.add(x.id)
    for st in ast.walk(fn_node):
        if isinstance(st, ast.AugAssign) and isinstance(st.op, (ast.Add, ast.Sub)) and isinstance(st.target, ast.Subscript):
            idx = st.target.slice
            elts = idx.elts if isinstance(idx, ast.Tuple) else [idx]
            if any(isinstance(e, ast.Name) and e.id in arrays for e in elts) or any(isinstance(e, (ast.List, ast.ListComp)) for e in elts):
                yield st


def collapse_before_threshold(fn_node):
    """Statements that turn the matrix that is later compared with the parameter `s` into a 0/1 (or clipped) matrix and
    are not dominated by a statement that compares the matrix with `s` (a statement doing both at once, such as
    `A = (A >= s) * 1`, thresholds the counts it reads and is fine)."""
    if not any(a.arg == "s" for a in fn_node.args.args + fn_node.args.kwonlyargs):
        return
    def mentions_s(n):
        return any(isinstance(x, ast.Compare) and any(isinstance(y, ast.Name) and y.id == "s" for y in ast.walk(x)) for x in ast.walk(n))

    stmts = own_statements(fn_node)
    thresh = [st for st in stmts if not isinstance(st, (ast.If, ast.For, ast.While, ast.Try, ast.With)) and mentions_s(st)]
    if not thresh:
        return
    # the matrix names that are compared with s
    mats = set()
    for st in thresh:
        for x in ast.walk(st):
            if isinstance(x, ast.Compare) and any(isinstance(y, ast.Name) and y.id == "s" for y in ast.walk(x)):
                mats |= {y.id for y in ast.walk(x) if isinstance(y, ast.Name) and y.id != "s"}
    def collapses(st):
        if mentions_s(st):
            return None
        for c in ast.walk(st):
            if isinstance(c, ast.Call):
                nm = getattr(c.func, "attr", getattr(c.func, "id", None))
                args_m = [a for a in list(c.args) + [k.value for k in c.keywords] if isinstance(a, ast.Name) and a.id in mats]
                recv_m = isinstance(c.func, ast.Attribute) and isinstance(c.func.value, ast.Name) and c.func.value.id in mats
                if nm in ("minimum", "clip", "sign", "heaviside") and args_m:
                    return c
                if nm == "clip" and recv_m:
                    return c
                if nm == "astype" and recv_m and c.args and getattr(c.args[0], "id", getattr(c.args[0], "attr", None)) in ("bool", "bool_"):
                    return c
            if isinstance(c, ast.Compare) and isinstance(c.left, ast.Name) and c.left.id in mats and len(c.comparators) == 1 and isinstance(c.comparators[0], ast.Constant) and c.comparators[0].value in (0, 1) and isinstance(c.ops[0], (ast.Gt, ast.NotEq, ast.GtE)):
                # A > 0 / A != 0 / A >= 1 used as the new value of the matrix or as a mask that is set to 1
                if isinstance(st, ast.Assign) and any((isinstance(t, ast.Name) and t.id in mats) or (isinstance(t, ast.Subscript) and isinstance(t.value, ast.Name) and t.value.id in mats) for t in st.targets):
                    return c
        return None

    cfg = CFG(fn_node)
    for st in stmts:
        if isinstance(st, (ast.If, ast.For, ast.While, ast.Try, ast.With)):
            continue
        c = collapses(st)
        if c is None:
            continue
        # is the collapsed value written back to the matrix?
        writes_back = (isinstance(st, ast.Assign) and any(isinstance(x, ast.Name) and x.id in mats for t in st.targets for x in ast.walk(t))) or any(isinstance(k, ast.keyword) and k.arg == "out" for k in ast.walk(st)) or isinstance(st, ast.AugAssign)
        if not writes_back:
            continue
        if not cfg.dominated_by(st, lambda n: any(n is t for t in thresh)) and any(t in cfg.reachable(st) for t in thresh):
            yield st


def accumulating_population(fn_node):
    """Ways of filling an array that add up repeated indices: `A[i] += v`, np.add.at, np.bincount, histograms, Counter,
    and sparse constructors from (data, (row, col)) triplets (which sum duplicates)."""
    par = {}
    for p in ast.walk(fn_node):
        for ch in ast.iter_child_nodes(p):
            par[ch] = p

    def flattened(n):
        """counts turned back into an indicator right away: `(counts > 0)`, `np.minimum(counts, 1)`, `.astype(bool)`, np.sign"""
        p = par.get(n)
        for _ in range(3):
            if p is None:
                return False
            if isinstance(p, ast.Compare) and len(p.ops) == 1 and isinstance(p.ops[0], (ast.Gt, ast.NotEq, ast.GtE)):
                return True
            if isinstance(p, ast.Call):
                pn = getattr(p.func, "attr", getattr(p.func, "id", None))
                if pn in ("minimum", "clip", "sign") or (pn == "astype" and p.args and unparse(p.args[0]) == "bool"):
                    return True
            if isinstance(p, ast.stmt):
                return False
            p = par.get(p)
        return False

    for n in ast.walk(fn_node):
        if isinstance(n, ast.AugAssign) and isinstance(n.op, ast.Add) and isinstance(n.target, ast.Subscript):
            yield n
        if isinstance(n, ast.Call) and not flattened(n):
            name = getattr(n.func, "attr", getattr(n.func, "id", None))
            if name in ("bincount", "histogramdd", "histogram", "histogram2d", "Counter", "coo_array", "coo_matrix"):
                yield n
            if name == "at" and isinstance(n.func, ast.Attribute) and getattr(n.func.value, "attr", None) == "add":
                yield n


def falsy_default_sites(fn_node):
    """`X.get(k) or d`, `X[k] or d`, `X.get(k, d0) or d`: a stored number replaced by a default when it is falsy."""
    for n in ast.walk(fn_node):
        if isinstance(n, ast.BoolOp) and isinstance(n.op, ast.Or) and len(n.values) == 2:
            a, b = n.values
            looks_up = (isinstance(a, ast.Call) and isinstance(a.func, ast.Attribute) and a.func.attr == "get") or isinstance(a, ast.Subscript)
            if looks_up and isinstance(b, ast.Constant) and isinstance(b.value, (int, float)) and not isinstance(b.value, bool):
                yield n


def check_dtype(repo, res, fns):
    """Sibling agreement of the sparse and the dense construction."""
    n = 0

    def dtypes(nodes):
        out = set()
        for st in nodes:
            for c in ast.walk(st):
                if isinstance(c, ast.Call):
                    for k in c.keywords:
                        if k.arg == "dtype":
                            out.add(unparse(k.value))
                    if isinstance(c.func, ast.Attribute) and c.func.attr == "astype" and c.args:
                        out.add(unparse(c.args[0]))
        return out

    for fn in fns:
        if "sparse" not in fn.all_params:
            continue
        # `if sparse: return X` followed by the dense construction: the rest of the block is the else branch
        rest_of = {}
        for blk_owner in ast.walk(fn.node):
            for field in ("body", "orelse", "finalbody"):
                blk = getattr(blk_owner, field, None)
                if isinstance(blk, list):
                    for i, st in enumerate(blk):
                        if isinstance(st, ast.If) and not st.orelse and st.body and isinstance(st.body[-1], (ast.Return, ast.Raise)):
                            rest_of[st] = blk[i + 1 :]
        for node in ast.walk(fn.node):
            if isinstance(node, (ast.If, ast.IfExp)):
                t = node.test
                neg = isinstance(t, ast.UnaryOp) and isinstance(t.op, ast.Not)
                t = t.operand if neg else t
                if not (isinstance(t, ast.Name) and t.id == "sparse"):
                    continue
                a = dtypes(node.body if isinstance(node, ast.If) else [node.body])
                b = dtypes((node.orelse or rest_of.get(node, [])) if isinstance(node, ast.If) else [node.orelse])
                if not a or not b:
                    continue
                n += 1
                ok = a == b
                res.inst("M-DTYPE", f"{fn.qualname}:{node.lineno} sparse branch dtype {sorted(a)} = dense branch dtype {sorted(b)}", ok)
                if not ok:
                    sp, de = (b, a) if neg else (a, b)
                    res.add(mk_finding(PROP, "M-DTYPE", fn, node, f"{fn.qualname}: the sparse branch builds the matrix with dtype {sorted(sp)} and the dense branch with {sorted(de)}; products and sums of the two forms then differ (a narrower integer type wraps), so sparse and dense outputs of the functions built on it are not equal", role="dtype"))
    res.floor("sparse/dense construction pairs with explicit dtypes", n, 2)


def local_defs(fn, name):
    return [s for s in own_statements(fn.node) if isinstance(s, ast.Assign) and any(name in {x.id for x in ast.walk(t) if isinstance(x, ast.Name)} for t in s.targets)]


def expand_helper(fn, expr):
    """`_index_map(ids)` -> the helper's single return expression with its parameters replaced by the arguments
    (same-module helper whose body is one return statement); otherwise the expression itself."""
    from ..provenance import subst

    if isinstance(expr, ast.Call) and isinstance(expr.func, ast.Name) and not expr.keywords:
        h = fn.module.functions.get(expr.func.id)
        if h is not None and h is not fn:
            body = [b for b in h.node.body if not (isinstance(b, ast.Expr) and isinstance(b.value, ast.Constant))]
            if len(body) == 1 and isinstance(body[0], ast.Return) and body[0].value is not None and len(expr.args) == len(h.params):
                return subst(body[0].value, dict(zip(h.params, expr.args)))
    return expr


def map_provenance(fn, expr, depth=0):
    """Classify the expression of a returned index map: 'inverse-of-placement' / 'callee' / 'enumerate-view' / 'empty' / None."""
    if depth > 4:
        return None, "too deep"
    expr = expand_helper(fn, expr)
    if isinstance(expr, ast.Dict) and not expr.keys:
        return "empty", ""
    if isinstance(expr, ast.DictComp):
        g = expr.generators[0]
        # {v: k for k, v in FWD.items()}
        if isinstance(g.iter, ast.Call) and isinstance(g.iter.func, ast.Attribute) and g.iter.func.attr == "items" and isinstance(g.iter.func.value, ast.Name) and isinstance(g.target, ast.Tuple) and len(g.target.elts) == 2:
            k, v = g.target.elts
            if isinstance(expr.key, ast.Name) and isinstance(expr.value, ast.Name) and isinstance(k, ast.Name) and isinstance(v, ast.Name) and expr.key.id == v.id and expr.value.id == k.id:
                fwd = g.iter.func.value.id
                for d in local_defs(fn, fwd):
                    val = expand_helper(fn, d.value)
                    if isinstance(val, ast.Call) and getattr(val.func, "id", None) == "dict" and val.args and isinstance(val.args[0], ast.Call) and getattr(val.args[0].func, "id", None) == "zip" and len(val.args[0].args) == 2 and isinstance(val.args[0].args[1], ast.Call) and getattr(val.args[0].args[1].func, "id", None) == "range":
                        if not is_view_order(fn, val.args[0].args[0]):
                            return None, f"`{fwd}` numbers `{unparse(val.args[0].args[0], 40)}`, which is not a node/edge view in view order; callers that use the matrix without the index maps rely on row i being the i-th ID of the view"
                        return "inverse-of-placement", fwd
                    if isinstance(val, ast.DictComp):
                        it = val.generators[0].iter
                        src = None
                        if isinstance(it, ast.Call) and getattr(it.func, "id", None) == "enumerate" and it.args:
                            src = it.args[0]
                        elif isinstance(it, ast.Call) and getattr(it.func, "id", None) == "zip" and it.args:
                            src = it.args[0]
                        if src is None or not is_view_order(fn, src):
                            return None, f"`{fwd}` is numbered over `{unparse(it, 40)}`, which is not a node/edge view in view order"
                        return "inverse-of-placement", fwd
                    if isinstance(val, ast.Dict) and not val.keys or (isinstance(val, ast.Call) and getattr(val.func, "id", None) == "dict" and not val.args):
                        bad = fills_out_of_view_order(fn, fwd)
                        if bad is not None:
                            return None, f"`{fwd}` numbers the IDs in the order they are first met while iterating `{bad}`, not in view order; callers that use the matrix without the index maps (row i = i-th ID of the view) attach the rows to the wrong labels"
                        return "inverse-of-placement", fwd
                    # forward map taken from a callee's inverse map (adjacency_tensor: nodedict = inverse of rowdict)
                    p, w = map_provenance(fn, val, depth + 1)
                    if p:
                        return p, w
                return None, f"`{fwd}` is not built as dict(zip(<view>, range(n)))"
        # {i: v for i, v in enumerate(VIEW)}
        if isinstance(g.iter, ast.Call) and getattr(g.iter.func, "id", None) == "enumerate" and g.iter.args:
            v = g.iter.args[0]
            if is_plain_view(v):
                return "enumerate-view", unparse(v)
            if numbers_same_source(fn, v):
                return "enumerate-placement-source", unparse(v)
            return None, f"enumerates `{unparse(v, 40)}`, not the unfiltered node/edge view in view order"
        return None, "dict comprehension of unrecognised form"
    if isinstance(expr, ast.Call) and getattr(expr.func, "id", None) == "dict" and expr.args and isinstance(expr.args[0], ast.Call) and getattr(expr.args[0].func, "id", None) == "enumerate":
        v = expr.args[0].args[0]
        if is_plain_view(v):
            return "enumerate-view", unparse(v)
        if numbers_same_source(fn, v):
            return "enumerate-placement-source", unparse(v)
        return None, f"enumerates `{unparse(v, 40)}`, not the unfiltered node/edge view in view order"
    if isinstance(expr, ast.Name):
        defs = local_defs(fn, expr.id)
        if not defs:
            return None, f"`{expr.id}` has no local definition"
        kinds = set()
        why = ""
        for d in defs:
            if isinstance(d.targets[0], (ast.Tuple, ast.List)) and isinstance(d.value, ast.Call):
                kinds.add("callee")
                why = unparse(d.value.func)
                continue
            p, w = map_provenance(fn, d.value, depth + 1)
            if p is None:
                return None, w
            if p == "empty":
                # created empty and filled by stores: every fill must sit in a loop that enumerates a view in view order
                bad = fills_out_of_view_order(fn, expr.id)
                if bad is not None and any(isinstance(n, ast.Subscript) and isinstance(n.ctx, ast.Store) and isinstance(n.value, ast.Name) and n.value.id == expr.id for n in ast.walk(fn.node)):
                    return None, f"`{expr.id}` is filled while iterating `{bad}`, not an enumeration of the view in view order"
            kinds.add(p)
            why = w
        return sorted(kinds)[0], why
    return None, f"`{unparse(expr, 40)}` is not a recognised index-map construction"


def numbers_same_source(fn, v):
    """`dict(enumerate(X))` next to a placement map that numbers the very same local X (`{x: i for i, x in enumerate(X)}`,
    `dict(zip(X, range(n)))`), X bound once to a view in view order (possibly filtered): position i is the i-th element of
    X in both, so the returned map is the inverse of the map that placed the entries."""
    if not (isinstance(v, ast.Name) and is_view_order(fn, v)):
        return False
    if any(isinstance(x, ast.Name) and x.id == v.id and isinstance(x.ctx, ast.Store) for st in ast.walk(fn.node) if isinstance(st, (ast.For, ast.AugAssign)) for x in ast.walk(st.target)):
        return False
    for st in ast.walk(fn.node):
        if not (isinstance(st, ast.Assign) and len(st.targets) == 1 and isinstance(st.targets[0], ast.Name)):
            continue
        val = st.value
        if isinstance(val, ast.Call) and getattr(val.func, "id", None) == "dict" and val.args and isinstance(val.args[0], ast.Call) and getattr(val.args[0].func, "id", None) == "zip" and len(val.args[0].args) == 2:
            a, b = val.args[0].args
            if isinstance(a, ast.Name) and a.id == v.id and isinstance(b, ast.Call) and getattr(b.func, "id", None) in ("range", "count"):
                return True
        if isinstance(val, ast.DictComp) and len(val.generators) == 1:
            g = val.generators[0]
            if isinstance(g.iter, ast.Call) and getattr(g.iter.func, "id", None) == "enumerate" and g.iter.args and isinstance(g.iter.args[0], ast.Name) and g.iter.args[0].id == v.id and isinstance(g.target, ast.Tuple) and len(g.target.elts) == 2 and all(isinstance(x, ast.Name) for x in g.target.elts):
                i, x = g.target.elts
                if isinstance(val.key, ast.Name) and val.key.id == x.id and isinstance(val.value, ast.Name) and val.value.id == i.id and not g.ifs:
                    return True
    return False


def is_view_order(fn, v, depth=0):
    """v iterates node/edge IDs in view order: H.nodes / H.edges, a filter of one (filters keep view order), list() of one,
    or a local name bound to one."""
    if depth > 4:
        return False
    if isinstance(v, ast.Attribute) and v.attr in ("nodes", "edges") and isinstance(v.value, ast.Name):
        return True
    if isinstance(v, ast.Name) and v.id in fn.all_params:
        return v.id == fn.params[0]  # iterating a network yields its nodes in view order
    if isinstance(v, ast.Call) and getattr(v.func, "id", None) in ("list", "tuple") and v.args:
        return is_view_order(fn, v.args[0], depth + 1)
    if isinstance(v, ast.Call) and isinstance(v.func, ast.Attribute) and v.func.attr in ("filterby", "filterby_attr"):
        return is_view_order(fn, v.func.value, depth + 1)
    if isinstance(v, ast.IfExp):
        return is_view_order(fn, v.body, depth + 1) and is_view_order(fn, v.orelse, depth + 1)
    if isinstance(v, ast.Name):
        defs = local_defs(fn, v.id)
        return bool(defs) and all(isinstance(d.targets[0], ast.Name) and is_view_order(fn, d.value, depth + 1) for d in defs)
    return False


def fills_out_of_view_order(fn, name):
    """A forward map created empty: every statement that adds a key (`m[k] = ...`, `m.setdefault(k, ...)`) must sit in a
    loop over a view in view order, and the first such loop must cover the whole view. Returns the offending iterable."""
    par = {}
    for p in ast.walk(fn.node):
        for ch in ast.iter_child_nodes(p):
            par[ch] = p
    sites = []
    for n in ast.walk(fn.node):
        if isinstance(n, ast.Subscript) and isinstance(n.ctx, ast.Store) and isinstance(n.value, ast.Name) and n.value.id == name:
            sites.append(n)
        if isinstance(n, ast.Call) and isinstance(n.func, ast.Attribute) and n.func.attr in ("setdefault", "update") and isinstance(n.func.value, ast.Name) and n.func.value.id == name:
            sites.append(n)
    sites.sort(key=lambda n: (n.lineno, n.col_offset))
    for site in sites[:1]:  # the first filling decides the numbering of everything it meets
        p = site
        loop = None
        while p in par:
            p = par[p]
            if isinstance(p, (ast.For, ast.comprehension)):
                loop = p
            if isinstance(p, (ast.ListComp, ast.SetComp, ast.GeneratorExp, ast.DictComp)) and loop is None:
                loop = p.generators[0]
            if isinstance(p, ast.For):
                loop = p  # outermost enclosing loop wins
        if loop is None:
            return "no loop"
        it = loop.iter
        if isinstance(it, ast.Call) and getattr(it.func, "id", None) == "enumerate" and it.args:
            it = it.args[0]
        if not is_view_order(fn, it):
            return unparse(it, 40)
    return None


def is_plain_view(v):
    if isinstance(v, ast.Attribute) and v.attr in ("nodes", "edges") and isinstance(v.value, ast.Name):
        return True
    if isinstance(v, ast.Call) and getattr(v.func, "id", None) == "list" and v.args:
        return is_plain_view(v.args[0])
    return False


def check_map(repo, eng, res, fn, prop=PROP):
    rets = [r for r in own_statements(fn.node) if isinstance(r, ast.Return) and r.value is not None]
    expected = ROW_KIND.get(fn.name)
    for r in rets:
        v = r.value
        tuples = []
        if isinstance(v, ast.IfExp):
            tuples = [x for x in (v.body, v.orelse) if isinstance(x, ast.Tuple)]
        elif isinstance(v, ast.Tuple):
            tuples = [v]
        for t in tuples:
            for j, m in enumerate(t.elts[1:]):
                prov, why = map_provenance(fn, m)
                ok = prov is not None
                res.inst("M-MAP", f"{fn.qualname}:{r.lineno} returned map #{j + 1} `{unparse(m, 30)}` -> {prov or 'unrecognised'} ({why})", ok)
                if not ok:
                    res.add(mk_finding(prop, "M-MAP", fn, r, f"{fn.qualname}: the index map `{unparse(m, 40)}` returned with the matrix is not derived from the map that placed the entries ({why}); rows/columns would be reported under the wrong labels", role=f"map{j + 1}"))
    # kinds of the returned maps under index=True
    if expected is not None:
        r = eng.analyze(fn)
        for k in r.returns:
            if k is not None and k[0] == "tup" and len(k[1]) >= 2:
                for j, mk in enumerate(k[1][1:]):
                    if mk is None or mk[0] != "map" or j >= len(expected) or expected[j] is None:
                        continue
                    key, val = mk[1], mk[2]
                    bad = (val is not None and val[0] == "id" and val[1] and val[1] != expected[j]) or (key is not None and key[0] == "id")
                    res.inst("M-MAP", f"{fn.qualname}: returned map #{j + 1} has kind {fmt(mk)}", not bad)
                    if bad:
                        res.add(mk_finding(prop, "M-MAP", fn, fn.node, f"{fn.qualname}: returned index map #{j + 1} has kind {fmt(mk)}; expected positions -> {expected[j]} labels", role=f"kind{j + 1}"))


def check_empty(repo, res, fn):
    for st in own_statements(fn.node):
        if not (isinstance(st, ast.If) and isinstance(st.test, ast.Compare) and isinstance(st.test.left, ast.Attribute) and st.test.left.attr == "shape" and isinstance(st.test.comparators[0], ast.Tuple) and all(isinstance(e, ast.Constant) and e.value == 0 for e in st.test.comparators[0].elts)):
            continue
        rets = [r for r in own_statements(st) if isinstance(r, ast.Return) and st_in(st.body, r)]
        if not rets:
            continue
        # maps known to be empty in this branch: results of an incidence/adjacency call with index=True
        empties = {}
        for d in own_statements(fn.node):
            if isinstance(d, ast.Assign) and isinstance(d.targets[0], (ast.Tuple, ast.List)) and isinstance(d.value, ast.Call):
                for e in d.targets[0].elts[1:]:
                    if isinstance(e, ast.Name):
                        empties[e.id] = False  # falsy
        wrapper = ast.FunctionDef(name="_", args=fn.node.args, body=st.body, decorator_list=[], lineno=st.lineno)
        cfg = CFG(wrapper)
        ef = edge_filter(empties, {})
        for r in rets:
            names = set()
            v = r.value
            for x in ast.walk(v):
                if isinstance(x, ast.Name) and isinstance(x.ctx, ast.Load) and x.id not in fn.all_params and x.id not in empties:
                    names.add(x.id)
            for name in sorted(names):
                assigned_before = any(isinstance(d, ast.Assign) and any(isinstance(t, ast.Name) and t.id == name for t in d.targets) and d.lineno < st.lineno for d in own_statements(fn.node))
                if assigned_before:
                    continue

                def assigns(n, name=name):
                    return isinstance(n, ast.Assign) and any(isinstance(t, ast.Name) and t.id == name for t in n.targets)

                from ..cfg import ENTRY

                ok = r not in cfg.reachable(ENTRY, avoid=assigns, edge_ok=ef)
                res.inst("M-EMPTY", f"{fn.qualname}:{r.lineno} `{name}` is assigned on every path of the (0, 0) branch", ok)
                if not ok:
                    res.add(mk_finding(PROP, "M-EMPTY", fn, r, f"{fn.qualname}: in the degenerate (0, 0) branch `{name}` is returned but not assigned on every path (networks with no edges, or no edges of the requested order, would raise UnboundLocalError)", role=name))


def st_in(stmts, target):
    return any(sub is target for s in stmts for sub in ast.walk(s))


def check_norm(repo, res):
    mi = repo.modules.get("xgi.linalg.laplacian_matrix")
    fn = mi.functions.get("multiorder_laplacian") if mi else None
    if fn is None:
        raise AnalysisError("xgi.linalg.laplacian_matrix.multiorder_laplacian not found (anchor vanished)")
    flag = "rescale_per_node"
    if flag not in fn.all_params:
        res.info.append({"M-NORM": "multiorder_laplacian has no rescale_per_node parameter"})
        return
    # names tainted by the flag (flow-insensitive closure over assignments, loop targets and comprehensions)
    tainted = {flag}
    changed = True
    stmts = own_statements(fn.node)
    while changed:
        changed = False
        for s in stmts:
            pairs = []
            if isinstance(s, ast.Assign):
                pairs.append((s.targets, s.value))
            elif isinstance(s, ast.AugAssign):
                pairs.append(([s.target], s.value))
            elif isinstance(s, ast.For):
                pairs.append(([s.target], s.iter))
            for tgts, val in pairs:
                used = {x.id for x in ast.walk(val) if isinstance(x, ast.Name)}
                if used & tainted:
                    if isinstance(s, ast.For) and isinstance(s.target, ast.Tuple) and isinstance(s.iter, ast.Call) and getattr(s.iter.func, "id", None) == "zip":
                        for te, arg in zip(s.target.elts, s.iter.args):
                            if {x.id for x in ast.walk(arg) if isinstance(x, ast.Name)} & tainted:
                                for x in ast.walk(te):
                                    if isinstance(x, ast.Name) and x.id not in tainted:
                                        tainted.add(x.id); changed = True
                        continue
                    for t in tgts:
                        for x in ast.walk(t):
                            if isinstance(x, ast.Name) and x.id not in tainted:
                                tainted.add(x.id); changed = True
    # the normaliser: argument of np.mean in a division
    norms = []
    for s in stmts:
        for n in ast.walk(s):
            if isinstance(n, ast.BinOp) and isinstance(n.op, ast.Div):
                for c in ast.walk(n.right):
                    if isinstance(c, ast.Call) and getattr(c.func, "attr", getattr(c.func, "id", None)) == "mean":
                        norms.append((s, c))
    if not norms:
        raise AnalysisError("multiorder_laplacian: the mean-degree normaliser was not found (extractor does not recognise the code)")
    for s, c in norms:
        used = {x.id for x in ast.walk(c) if isinstance(x, ast.Name)}
        ok = not (used & tainted)
        res.inst("M-NORM", f"multiorder_laplacian:{s.lineno} normaliser `{unparse(c, 40)}` is independent of {flag}", ok)
        if not ok:
            res.add(mk_finding(PROP, "M-NORM", fn, s, f"multiorder_laplacian: the per-order normaliser `{unparse(c, 40)}` depends on `{flag}` (through {sorted(used & tainted)}); the mean order-d degree must be the same whether or not each Laplacian is rescaled", role="normaliser"))


def check_siblings_linear(res, fns):
    """M-SIB: the sparse and the dense branch of a builder return the same matrix.  Where a builder is a straight line of
    matrix arithmetic under each valuation of its boolean flags (sa/linform.py), both branches are evaluated to linear forms
    over opaque matrix atoms with coefficients in the numeric parameter, and compared per valuation of the other flags.
    Builders outside that fragment are counted as not evaluable and give no verdict."""
    from ..linform import NotEvaluable, evaluate
    from ..paths import valuations

    pairs = 0
    for fn in fns:
        if fn.cls is not None or "sparse" not in fn.all_params:
            continue
        scal = [p_ for p_ in ("order", "s") if p_ in fn.all_params]
        by_rest = {}
        for val in valuations(fn.node):
            if "sparse" not in val:
                continue
            rest = tuple(sorted((k, v) for k, v in val.items() if k != "sparse"))
            try:
                forms = evaluate(fn.node, val, scal)
            except NotEvaluable:
                continue
            by_rest.setdefault(rest, {})[val["sparse"]] = forms
        for rest, d in sorted(by_rest.items()):
            if True in d and False in d:
                pairs += 1
                a, b = [f.key() for f in d[True]], [f.key() for f in d[False]]
                ok = a == b
                desc = ", ".join(f"{k}={v}" for k, v in rest) or "no other flag"
                res.inst("M-SIB", f"{fn.qualname} [{desc}]: sparse and dense results are the same linear form", ok)
                if not ok:
                    def show(keys):
                        out = []
                        for kind, items in keys:
                            if kind == "M":
                                out.append(" + ".join(f"({' + '.join(f'{c}*order^{p_}' if p_ else str(c) for p_, c in poly)})*[{atom.split('|')[0]}]" for atom, poly in items))
                        return "; ".join(out)
                    res.add(mk_finding(PROP, "M-SIB", fn, fn.node, f"{fn.qualname} [{desc}]: the sparse branch returns {show(a)} while the dense branch returns {show(b)}; the two representations of the same matrix differ (a factor applied to one term only, or in one branch only)", role=f"sib:{desc}"))
    # a builder that hands `sparse` to a helper instead of branching on it has no sibling branches to compare; the floor
    # is therefore on the builders examined, the number of compared pairs is recorded in the evidence
    res.counters["sparse/dense branch pairs compared as linear forms"] = pairs
    res.floor("builders with a sparse option examined for sibling branches", len([f for f in fns if f.cls is None and "sparse" in f.all_params]), 6)
