#!/venv/bin/python
"""Hand triage only (NOT a check): concrete failing inputs for every defect the static rules
reported on the pinned tree. Each function returns True when the defect is PRESENT."""
import sys, warnings, io, os, tempfile, pickle
warnings.simplefilter("ignore")
import numpy as np
import xgi
from xgi.exception import XGIError

def inc_ok(H):
    for e, mem in H._edge.items():
        for n in mem:
            if n not in H._node or e not in H._node[n]: return False
    for n, ms in H._node.items():
        for e in ms:
            if e not in H._edge or n not in H._edge[e]: return False
    return set(H._edge) == set(H._edge_attr) and set(H._node) == set(H._node_attr)

def di_ok(D):
    for e, d in D._edge.items():
        for n in d["in"]:
            if n not in D._node or e not in D._node[n]["out"]: return False
        for n in d["out"]:
            if n not in D._node or e not in D._node[n]["in"]: return False
    for n, d in D._node.items():
        for e in d["out"]:
            if e not in D._edge or n not in D._edge[e]["in"]: return False
        for e in d["in"]:
            if e not in D._edge or n not in D._edge[e]["out"]: return False
    return set(D._edge) == set(D._edge_attr) and set(D._node) == set(D._node_attr)

R = {}
def defect(f):
    R[f.__name__] = f
    return f

@defect
def c18_freeze_hypergraph():
    bad = []
    for cls, calls in [
        (xgi.Hypergraph, [lambda H: H.clear_edges(), lambda H: H.double_edge_swap(1, 3, 0, 1), lambda H: H.random_edge_shuffle(0, 1)]),
        (xgi.SimplicialComplex, [lambda H: H.clear_edges(), lambda H: H.remove_node_from_edge(0, 1), lambda H: H.double_edge_swap(1, 3, 0, 1), lambda H: H.random_edge_shuffle(0, 1)]),
    ]:
        for c in calls:
            H = cls([[1, 2], [3, 4]]); H.freeze()
            before = (dict(H._edge), dict(H._node))
            try:
                c(H); bad.append((cls.__name__, 'no raise'))
            except XGIError as e:
                if 'Frozen' not in str(e): bad.append((cls.__name__, str(e)))
            except Exception as e:
                bad.append((cls.__name__, repr(e)))
    D = xgi.DiHypergraph([([1], [2])]); D.freeze()
    try:
        D.add_node_to_edge(0, 5, "in"); bad.append('di add_node_to_edge')
    except XGIError: pass
    try:
        D.remove_node_from_edge(0, 1, "in"); bad.append('di remove_node_from_edge')
    except XGIError: pass
    return bad

@defect
def c02_strong_remove():
    D = xgi.DiHypergraph([([1, 2], [3]), ([2], [4])]); D.remove_node(1, strong=True)
    return not di_ok(D)

@defect
def c04_idx0():
    H = xgi.Hypergraph(); H.add_edge([1, 2], idx=0); H.add_edge([3, 4])
    return H.num_edges != 2 or not inc_ok(H)

@defect
def c04_idx0_di():
    H = xgi.DiHypergraph(); H.add_edge(([1], [2]), idx=0); H.add_edge(([3], [4]))
    return H.num_edges != 2 or not di_ok(H)

@defect
def c04_bulk_last_only():
    H = xgi.Hypergraph(); H.add_edges_from([([1, 2], 5), ([3, 4], 1)])
    for i in range(4): H.add_edge([10 + i, 20 + i])
    return H.num_edges != 6 or not inc_ok(H)

@defect
def c04_bulk_last_only_di():
    H = xgi.DiHypergraph(); H.add_edges_from([(([1], [2]), 5), (([3], [4]), 1)])
    for i in range(4): H.add_edge(([10 + i], [20 + i]))
    return H.num_edges != 6 or not di_ok(H)

@defect
def c04_add_node_to_edge():
    H = xgi.Hypergraph(); H.add_node_to_edge(0, 1); H.add_edge([5, 6])
    return H.num_edges != 2 or not inc_ok(H)

@defect
def c04_add_node_to_edge_di():
    H = xgi.DiHypergraph(); H.add_node_to_edge(0, 1, "in"); H.add_edge(([5], [6]))
    return H.num_edges != 2 or not di_ok(H)

@defect
def c09_local_clustering():
    H1 = xgi.Hypergraph({0: [1, 2, 3], 1: [3, 4], 2: [4, 5, 6]})
    H2 = xgi.Hypergraph({1: [1, 2, 3], 0: [3, 4], 2: [4, 5, 6]})
    return xgi.local_clustering_coefficient(H1) != xgi.local_clustering_coefficient(H2)

@defect
def c10_sc_net_attr():
    S = xgi.SimplicialComplex([[1, 2, 3]]); S["name"] = "x"
    S2 = xgi.from_hif_dict(xgi.to_hif_dict(S))
    H = xgi.Hypergraph([[1, 2]]); H["name"] = "y"
    S3 = xgi.SimplicialComplex(H)
    return S2._net_attr != {"name": "x"} or S3._net_attr != {"name": "y"}

@defect
def c10_bipartite_role():
    import networkx as nx
    G = nx.Graph()
    G.add_node("e0", bipartite=1); G.add_node(1, bipartite=0); G.add_node(2, bipartite=0)
    G.add_edge("e0", 1); G.add_edge("e0", 2)
    try:
        H = xgi.from_bipartite_graph(G)
    except Exception as e:
        return repr(e)
    return set(H.nodes) != {1, 2} or set(H.edges) != {"e0"}

@defect
def c11_loadtxt_rank():
    H = xgi.Hypergraph([[0, 1, 2]])
    d = tempfile.mkdtemp(); p = os.path.join(d, "i.txt")
    try:
        xgi.write_incidence_matrix(H, p)
        try:
            H2 = xgi.read_incidence_matrix(p)
        except Exception as e:
            return repr(e)
        return H2.edges.members() != H.edges.members()
    finally:
        import shutil; shutil.rmtree(d)

@defect
def c16_hsbm_p1():
    try:
        H = xgi.uniform_HSBM(6, 2, np.ones((2, 2)), [3, 3], seed=0)
    except Exception as e:
        return repr(e)
    return False

@defect
def c17_spectral():
    H = xgi.random_hypergraph(30, [0.1, 0.01], seed=1)
    outs = set()
    for _ in range(6):
        np.random.random(3)
        c = xgi.communities.spectral.spectral_clustering(H, 3, seed=5)
        outs.add(tuple(sorted(c.items())))
    return len(outs) > 1

@defect
def c06_aspandas_order():
    H = xgi.Hypergraph(); H.add_nodes_from([3, 1, 2]); H.add_edge([3, 1])
    return list(H.nodes.degree.aspandas().index) != list(H.nodes) or list(H.nodes.multi(["degree"]).aspandas().index) != list(H.nodes)

@defect
def c06_from_view_none():
    H = xgi.Hypergraph(); H.add_nodes_from([30, 10, 20])
    v = H.nodes(None)
    a = list(v) != [30, 10, 20]
    H.add_node(5)
    return a or (5 not in v)

@defect
def c03_empty_simplex():
    S = xgi.SimplicialComplex(); S.add_simplex([])
    return any(len(m) == 0 for m in S._edge.values())

@defect
def c03_max_order():
    S = xgi.SimplicialComplex(); S.add_simplices_from([[1, 2, 3, 4, 5]], max_order=2)
    a = max(len(m) for m in S._edge.values()) > 3
    S = xgi.SimplicialComplex(); S.add_simplices_from({"a": [1, 2, 3, 4, 5]}, max_order=2)
    return a or max(len(m) for m in S._edge.values()) > 3

@defect
def c05_sc_valueerror():
    S = xgi.SimplicialComplex()
    try:
        S.add_simplex([1, None])
    except XGIError:
        return False
    except ValueError:
        return True
    return "no raise"

@defect
def c05_sc_alias_drop():
    S = xgi.SimplicialComplex(); S.add_edge([1, 2], idx="a")
    S2 = xgi.SimplicialComplex(); S2.add_edges_from([[1, 2, 3, 4]], max_order=1)
    return "a" not in S.edges or max(len(m) for m in S2._edge.values()) > 2

@defect
def c01_none_member():
    out = []
    H = xgi.Hypergraph()
    try: H.add_edge([3, None])
    except Exception: pass
    out.append(not inc_ok(H))
    H = xgi.Hypergraph()
    try: H.add_edges_from([[1, None]])
    except Exception: pass
    out.append(not inc_ok(H))
    H = xgi.Hypergraph()
    try: H.add_edges_from({"a": [1, None]})
    except Exception: pass
    out.append(not inc_ok(H))
    return any(out) and out

@defect
def c01_oneshot():
    H = xgi.Hypergraph(); H.add_edges_from([iter([1, 2]), (x for x in [3, 4])])
    a = not inc_ok(H)
    H = xgi.Hypergraph(); H.add_edges_from({"a": iter([1, 2])})
    return a or not inc_ok(H)

@defect
def c02_none_member():
    out = []
    D = xgi.DiHypergraph()
    try: D.add_edge(([1], [None]))
    except Exception: pass
    out.append(not di_ok(D))
    D = xgi.DiHypergraph()
    try: D.add_edges_from([([1], [None])])
    except Exception: pass
    out.append(not di_ok(D))
    D = xgi.DiHypergraph()
    try: D.add_edges_from({"a": ([1], [None])})
    except Exception: pass
    out.append(not di_ok(D))
    return any(out) and out

@defect
def c02_oneshot():
    D = xgi.DiHypergraph(); D.add_edges_from({"a": (iter([1, 2]), iter([3]))})
    return not di_ok(D)

@defect
def c03_none_member():
    S = xgi.SimplicialComplex()
    try: S.add_simplex([1, None, 2])
    except Exception: pass
    a = not inc_ok(S)
    S = xgi.SimplicialComplex()
    try: S.add_simplices_from([[1, None, 2]])
    except Exception: pass
    return a or not inc_ok(S)

if __name__ == "__main__":
    only = sys.argv[1:]
    n = 0
    for k, f in R.items():
        if only and k not in only: continue
        try:
            r = f()
        except Exception as e:
            r = "EXC " + repr(e)
        print(("DEFECT " if r else "ok     ") + k, "" if not r or r is True else r)
        n += bool(r)
    print("defects present:", n)
